(* Theorems about the child-launch protocol of Model/Children.v, for every run (any number of parents and
   children, any interleaving of launches, child progress, child ends, timeouts and cancellations). *)
From Coq Require Import List Arith Bool Lia.
Import ListNotations.
From LSF Require Import Children.

Lemma lookup_set_eq {A} x (a : A) l : lookup x (set_key x a l) = Some a.
Proof. unfold set_key; cbn. now rewrite Nat.eqb_refl. Qed.
Lemma lookup_remove_eq {A} x (l : list (nat * A)) : lookup x (remove_key x l) = None.
Proof. induction l as [|[y a] r IH]; cbn; [reflexivity|]. destruct (Nat.eqb y x) eqn:E; cbn; [exact IH|]. now rewrite E. Qed.
Lemma lookup_remove_neq {A} x y (l : list (nat * A)) : x <> y -> lookup y (remove_key x l) = lookup y l.
Proof.
  intros N; induction l as [|[z a] r IH]; cbn; [reflexivity|].
  destruct (Nat.eqb z x) eqn:E; cbn.
  - apply Nat.eqb_eq in E; subst z. destruct (Nat.eqb x y) eqn:F; [apply Nat.eqb_eq in F; contradiction|exact IH].
  - destruct (Nat.eqb z y); [reflexivity|exact IH].
Qed.
Lemma lookup_set_neq {A} x y (a : A) l : x <> y -> lookup y (set_key x a l) = lookup y l.
Proof. intros N; unfold set_key; cbn. destruct (Nat.eqb x y) eqn:E; [apply Nat.eqb_eq in E; contradiction|]. now apply lookup_remove_neq. Qed.
Lemma lookup_In {A} x (a : A) l : lookup x l = Some a -> In (x, a) l.
Proof.
  induction l as [|[y b] r IH]; cbn; [discriminate|]. destruct (Nat.eqb y x) eqn:E; intros H.
  - apply Nat.eqb_eq in E; inversion H; subst; now left.
  - right; auto.
Qed.
Lemma find_by_timer_In n l c q : find_by_timer n l = Some (c, q) -> In (c, q) l /\ q_timer q = n.
Proof.
  induction l as [|[d r] l IH]; cbn; [discriminate|]. destruct (Nat.eqb (q_timer r) n) eqn:E; intros H.
  - inversion H; subst. apply Nat.eqb_eq in E. split; [now left|exact E].
  - destruct (IH H); split; [now right|assumption].
Qed.
Lemma find_by_task_In t l c q : find_by_task t l = Some (c, q) -> In (c, q) l /\ q_task q = t.
Proof.
  induction l as [|[d r] l IH]; cbn; [discriminate|]. destruct (Nat.eqb (q_task r) t) eqn:E; intros H.
  - inversion H; subst. apply Nat.eqb_eq in E. split; [now left|exact E].
  - destruct (IH H); split; [now right|assumption].
Qed.

(* ---- a child that has ended stays as it ended ---- *)
Lemma cancel_child_other w c clog k a e d : cancel_child w c clog = (k, a, e) -> d <> c -> lookup d k = lookup d (kids w).
Proof.
  unfold cancel_child; intros H N. destruct (lookup c (kids w)) as [[| m |]|]; inversion H; subst; try reflexivity.
  apply lookup_set_neq; auto.
Qed.
Lemma cancel_child_ended w c clog k a e d ok : cancel_child w c clog = (k, a, e) -> lookup d (kids w) = Some (CEnded ok) -> lookup d k = Some (CEnded ok).
Proof.
  intros H L. destruct (Nat.eq_dec d c) as [->|N].
  - unfold cancel_child in H. rewrite L in H. inversion H; subst; exact L.
  - erewrite cancel_child_other; eauto.
Qed.

Ltac step_inv H :=
  unfold cstep in H;
  repeat match type of H with
         | context [match ?x with _ => _ end] => destruct x eqn:?
         | context [if ?x then _ else _] => destruct x eqn:?
         end;
  try discriminate; inversion H; subst; clear H; cbn [pend kids done started armed] in *.

Lemma ended_stays w i w' e c ok :
  cstep w i = Some (w', e) -> lookup c (kids w) = Some (CEnded ok) -> lookup c (kids w') = Some (CEnded ok).
Proof.
  intros H L. destruct i as [t p plog f c0 r n | c0 cl b | c0 clog cl ok0 | n clog own | t clog | ].
  - destruct (Nat.eq_dec c0 c) as [->|N].
    + unfold cstep in H. rewrite L in H. destruct r; cbn in H; [|discriminate].
      destruct f; [inversion H; subst; exact L|]. destruct (mem n (armed w)); [discriminate|]. inversion H; subst; exact L.
    + step_inv H; try exact L; rewrite lookup_set_neq; auto.
  - destruct (Nat.eq_dec c0 c) as [->|N].
    + unfold cstep in H. rewrite L in H. discriminate.
    + step_inv H; rewrite lookup_set_neq; auto.
  - destruct (Nat.eq_dec c0 c) as [->|N].
    + unfold cstep in H. rewrite L in H. discriminate.
    + step_inv H; rewrite lookup_set_neq; auto.
  - unfold cstep in H. destruct (find_by_timer n (pend w)) as [[c1 q]|]; [|discriminate].
    destruct (cancel_child _ c1 clog) as [[k a] ef] eqn:C. inversion H; subst; cbn.
    eapply cancel_child_ended; [exact C|exact L].
  - unfold cstep in H. destruct (find_by_task t (pend w)) as [[c1 q]|]; [|discriminate].
    destruct (cancel_child _ c1 clog) as [[k a] ef] eqn:C. inversion H; subst; cbn.
    eapply cancel_child_ended; [exact C|exact L].
  - inversion H; subst; exact L.
Qed.

(* ---- T1: a synchronous completion with the child's record is only ever handed over for a child that is terminal, with that status ---- *)
Definition DoneOk (w : cworld) : Prop := forall t c ok, In (t, VChild c ok) (done w) -> lookup c (kids w) = Some (CEnded ok).

Lemma done_ok_step w i w' e : DoneOk w -> cstep w i = Some (w', e) -> DoneOk w'.
Proof.
  intros I H t c ok Hin.
  assert (Old : In (t, VChild c ok) (done w) -> lookup c (kids w') = Some (CEnded ok)) by (intros O; eapply ended_stays; eauto).
  destruct i as [t0 p plog f c0 r n | c0 cl b | c0 clog cl ok0 | n clog own | t0 clog | ].
  - step_inv H; try (apply Old; exact Hin); apply in_app_or in Hin as [O|[O|[]]]; try discriminate; apply Old; exact O.
  - apply Old. step_inv H; exact Hin.
  - unfold cstep in H. destruct (lookup c0 (kids w)) as [ph|] eqn:K; [|discriminate].
    destruct ph as [| m | o]; try discriminate;
      (destruct (leave _ cl (armed w)) as [[a0 pre]|]; [|discriminate]);
      (destruct (lookup c0 (pend w)) as [q|]; inversion H; subst; cbn [done kids] in *;
       [apply in_app_or in Hin as [O|[O|[]]]; [apply Old; exact O| inversion O; subst; apply lookup_set_eq] | apply Old; exact Hin]).
  - unfold cstep in H. destruct (find_by_timer n (pend w)) as [[c1 q]|]; [|discriminate].
    destruct (cancel_child _ c1 clog) as [[k a] ef] eqn:C. inversion H; subst; cbn [done kids] in *.
    apply in_app_or in Hin as [O|[O|[]]]; [|discriminate]. specialize (Old O). inversion H; subst. exact Old.
  - unfold cstep in H. destruct (find_by_task t0 (pend w)) as [[c1 q]|]; [|discriminate].
    destruct (cancel_child _ c1 clog) as [[k a] ef] eqn:C. inversion H; subst; cbn [done kids] in *.
    apply in_app_or in Hin as [O|[O|[]]]; [|discriminate]. specialize (Old O). inversion H; subst. exact Old.
  - inversion H; subst. eapply I; exact Hin.
Qed.

Lemma crun_inv (P : cworld -> Prop) :
  (forall w i w' e, P w -> cstep w i = Some (w', e) -> P w') ->
  forall l w w', P w -> crun w l = Some w' -> P w'.
Proof.
  intros S l; induction l as [|i r IH]; cbn; intros w w' Hw H; [inversion H; subst; exact Hw|].
  destruct (cstep w i) as [[w1 e]|] eqn:E; [|discriminate]. eapply IH; [eapply S; eauto|exact H].
Qed.

Theorem sync_completion_only_for_terminal_child : forall l w t c ok,
  crun cinit l = Some w -> In (t, VChild c ok) (done w) -> lookup c (kids w) = Some (CEnded ok).
Proof.
  intros l w t c ok R. revert t c ok. change (DoneOk w).
  eapply (crun_inv DoneOk); [intros; eapply done_ok_step; eauto| |exact R]. intros t c ok [].
Qed.

(* ---- T3: at most one completion per launch, for every run, redelivered launches included ---- *)
Definition is_launch_of (t : task) (i : cinput) : bool := match i with ILaunch t' _ _ _ _ _ _ => Nat.eqb t' t | _ => false end.
Definition launches_of (t : task) (l : list cinput) : nat := length (filter (is_launch_of t) l).
Fixpoint completions_of (t : task) (d : list (task * verdict)) : nat :=
  match d with [] => 0 | (u, _) :: r => (if Nat.eqb u t then 1 else 0) + completions_of t r end.
Fixpoint pending_of (t : task) (p : list (xid * preq)) : nat :=
  match p with [] => 0 | (_, q) :: r => (if Nat.eqb (q_task q) t then 1 else 0) + pending_of t r end.

Lemma completions_app t d x : completions_of t (d ++ [x]) = completions_of t d + (if Nat.eqb (fst x) t then 1 else 0).
Proof. induction d as [|[u v] r IH]; cbn [app completions_of]; [destruct x; cbn; lia|]. rewrite IH. lia. Qed.
Lemma pending_remove_le t c p : pending_of t (remove_key c p) <= pending_of t p.
Proof.
  induction p as [|[d q] r IH]; cbn [remove_key pending_of]; [lia|].
  destruct (Nat.eqb d c); cbn [pending_of]; destruct (Nat.eqb (q_task q) t); lia.
Qed.
Lemma pending_remove_lt c q p : In (c, q) p -> pending_of (q_task q) (remove_key c p) < pending_of (q_task q) p.
Proof.
  induction p as [|[d r] l IH]; cbn [remove_key pending_of In]; [intros []|]. intros [E|H].
  - inversion E; subst. rewrite !Nat.eqb_refl. pose proof (pending_remove_le (q_task q) c l) as P. lia.
  - specialize (IH H). destruct (Nat.eqb d c); cbn [pending_of]; destruct (Nat.eqb (q_task r) (q_task q)); lia.
Qed.
Lemma pending_set t c q p : pending_of t (set_key c q p) <= pending_of t p + (if Nat.eqb (q_task q) t then 1 else 0).
Proof. unfold set_key. pose proof (pending_remove_le t c p). cbn [pending_of]. destruct (Nat.eqb (q_task q) t); lia. Qed.

Lemma count_step t w i w' e k :
  completions_of t (done w) + pending_of t (pend w) <= k ->
  cstep w i = Some (w', e) ->
  completions_of t (done w') + pending_of t (pend w') <= k + (if is_launch_of t i then 1 else 0).
Proof.
  intros I H. destruct i as [t0 p plog f c0 r n | c0 cl b | c0 clog cl ok0 | n clog own | t0 clog | ]; cbn [is_launch_of].
  - step_inv H; rewrite ?completions_app; cbn [fst];
      try (match goal with |- context [set_key ?c ?q ?p] => pose proof (pending_set t c q p) as PS; cbn [q_task] in PS end);
      destruct (Nat.eqb t0 t); lia.
  - step_inv H; lia.
  - unfold cstep in H. destruct (lookup c0 (kids w)) as [ph|]; [|discriminate].
    destruct ph as [| m | o]; try discriminate;
      (destruct (leave _ cl (armed w)) as [[a0 pre]|]; [|discriminate]);
      (destruct (lookup c0 (pend w)) as [q|] eqn:L; inversion H; subst; cbn [done pend]; [|lia]);
      apply lookup_In in L; rewrite completions_app; cbn [fst];
      (destruct (Nat.eqb (q_task q) t) eqn:E;
       [apply Nat.eqb_eq in E; subst t; pose proof (pending_remove_lt _ _ _ L); lia
       |pose proof (pending_remove_le t c0 (pend w)); lia]).
  - unfold cstep in H. destruct (find_by_timer n (pend w)) as [[c1 q]|] eqn:F; [|discriminate].
    destruct (cancel_child _ c1 clog) as [[k0 a] ef]. inversion H; subst; cbn [done pend].
    apply find_by_timer_In in F as [F _]. rewrite completions_app; cbn [fst].
    destruct (Nat.eqb (q_task q) t) eqn:E;
      [apply Nat.eqb_eq in E; subst t; pose proof (pending_remove_lt _ _ _ F); lia
      |pose proof (pending_remove_le t c1 (pend w)); lia].
  - unfold cstep in H. destruct (find_by_task t0 (pend w)) as [[c1 q]|] eqn:F; [|discriminate].
    destruct (cancel_child _ c1 clog) as [[k0 a] ef]. inversion H; subst; cbn [done pend].
    apply find_by_task_In in F as [F _]. rewrite completions_app; cbn [fst].
    destruct (Nat.eqb (q_task q) t) eqn:E;
      [apply Nat.eqb_eq in E; subst t; pose proof (pending_remove_lt _ _ _ F); lia
      |pose proof (pending_remove_le t c1 (pend w)); lia].
  - inversion H; subst. lia.
Qed.

Lemma count_run t : forall l w w' k,
  completions_of t (done w) + pending_of t (pend w) <= k -> crun w l = Some w' ->
  completions_of t (done w') + pending_of t (pend w') <= k + launches_of t l.
Proof.
  induction l as [|i r IH]; cbn; intros w w' k I H.
  - inversion H; subst. unfold launches_of; cbn. lia.
  - destruct (cstep w i) as [[w1 e]|] eqn:E; [|discriminate].
    pose proof (count_step t w i w1 e k I E) as S. specialize (IH w1 w' _ S H).
    unfold launches_of in *; cbn. destruct (is_launch_of t i); cbn in *; lia.
Qed.

Theorem completed_at_most_once_per_launch : forall l w t, crun cinit l = Some w -> completions_of t (done w) <= launches_of t l.
Proof. intros l w t R. pose proof (count_run t l cinit w 0) as C. cbn in C. specialize (C (le_n 0) R). lia. Qed.

(* ---- T2 / T4: without redelivered launches: a pending request belongs to a child that is not terminal yet, and to the Task that started it ---- *)
Definition no_redelivery (l : list cinput) : Prop := forall t p plog f c n, ~ In (ILaunch t p plog f c true n) l.
Definition PendOk (w : cworld) : Prop :=
  forall c q, lookup c (pend w) = Some q ->
    (exists ph, lookup c (kids w) = Some ph /\ forall ok, ph <> CEnded ok) /\ In (c, q_task q) (started w).
Definition first_delivery (i : cinput) : Prop := match i with ILaunch _ _ _ _ _ true _ => False | _ => True end.

Lemma cancel_child_self w c clog k a e : cancel_child w c clog = (k, a, e) ->
  lookup c k = lookup c (kids w) \/ lookup c k = Some (CEnded false).
Proof.
  unfold cancel_child; intros H. destruct (lookup c (kids w)) as [[| m |]|] eqn:L; inversion H; subst; auto.
  right; apply lookup_set_eq.
Qed.

Lemma pend_ok_step w i w' e : first_delivery i -> PendOk w -> cstep w i = Some (w', e) -> PendOk w'.
Proof.
  intros FD I H c q L.
  destruct i as [t0 p plog f c0 r n | c0 cl b | c0 clog cl ok0 | n clog own | t0 clog | ].
  - destruct r; [contradiction|]. unfold cstep in H. cbn [negb andb] in H.
    destruct (lookup c0 (kids w)) eqn:K; cbn in H; [discriminate|].
    destruct f.
    + inversion H; subst; cbn [pend kids started] in *. destruct (I c q L) as [[ph [P1 P2]] P3].
      assert (c0 <> c) by (intros ->; congruence). split; [exists ph; split; [rewrite lookup_set_neq; auto|exact P2]|apply in_or_app; now left].
    + destruct (mem n (armed w)); [discriminate|]. inversion H; subst; cbn [pend kids started] in *.
      destruct (Nat.eq_dec c0 c) as [->|N].
      * rewrite lookup_set_eq in L; inversion L; subst; cbn. split; [exists CQueued; split; [apply lookup_set_eq|discriminate]|apply in_or_app; right; now left].
      * rewrite lookup_set_neq in L by auto. destruct (I c q L) as [[ph [P1 P2]] P3].
        split; [exists ph; split; [rewrite lookup_set_neq; auto|exact P2]|apply in_or_app; now left].
  - unfold cstep in H. destruct (lookup c0 (kids w)) as [ph0|] eqn:K; [|discriminate].
    destruct ph0 as [| m | o]; try discriminate;
      (destruct (leave _ cl (armed w)) as [[a1 pre]|]; [|discriminate]);
      (destruct (match b with Some n => mem n a1 | None => false end); [discriminate|]);
      inversion H; subst; cbn [pend kids started] in *; destruct (I c q L) as [[ph [P1 P2]] P3]; (split; [|exact P3]);
      (destruct (Nat.eq_dec c0 c) as [->|N];
       [eexists; split; [apply lookup_set_eq|destruct b; discriminate]
       |exists ph; split; [rewrite lookup_set_neq; auto|exact P2]]).
  - unfold cstep in H. destruct (lookup c0 (kids w)) as [ph0|] eqn:K; [|discriminate].
    assert (G : forall pw, (pw = remove_key c0 (pend w) \/ (pw = pend w /\ lookup c0 (pend w) = None)) -> lookup c pw = Some q ->
                c0 <> c /\ lookup c (pend w) = Some q).
    { intros pw [->|[-> Nn]] Lq.
      - destruct (Nat.eq_dec c0 c) as [->|N]; [rewrite lookup_remove_eq in Lq; discriminate|]. rewrite lookup_remove_neq in Lq by auto. auto.
      - split; [intros ->; congruence|exact Lq]. }
    destruct ph0 as [| m | o]; try discriminate;
      (destruct (leave _ cl (armed w)) as [[a0 pre]|]; [|discriminate]);
      (destruct (lookup c0 (pend w)) as [q0|] eqn:L0; inversion H; subst; cbn [pend kids started] in *;
       [destruct (G _ (or_introl eq_refl) L) as [N L']|destruct (G _ (or_intror (conj eq_refl eq_refl)) L) as [N L']];
       destruct (I c q L') as [[ph [P1 P2]] P3]; (split; [exists ph; split; [rewrite lookup_set_neq; auto|exact P2]|exact P3])).
  - unfold cstep in H. destruct (find_by_timer n (pend w)) as [[c1 q1]|]; [|discriminate].
    destruct (cancel_child _ c1 clog) as [[k a] ef] eqn:C. inversion H; subst; cbn [pend kids started] in *.
    destruct (Nat.eq_dec c1 c) as [->|N]; [rewrite lookup_remove_eq in L; discriminate|]. rewrite lookup_remove_neq in L by auto.
    destruct (I c q L) as [[ph [P1 P2]] P3]. split; [exists ph; split; [rewrite (cancel_child_other _ _ _ _ _ _ c C) by (intros E; apply N; now rewrite E); exact P1|exact P2]|exact P3].
  - unfold cstep in H. destruct (find_by_task t0 (pend w)) as [[c1 q1]|]; [|discriminate].
    destruct (cancel_child _ c1 clog) as [[k a] ef] eqn:C. inversion H; subst; cbn [pend kids started] in *.
    destruct (Nat.eq_dec c1 c) as [->|N]; [rewrite lookup_remove_eq in L; discriminate|]. rewrite lookup_remove_neq in L by auto.
    destruct (I c q L) as [[ph [P1 P2]] P3]. split; [exists ph; split; [rewrite (cancel_child_other _ _ _ _ _ _ c C) by (intros E; apply N; now rewrite E); exact P1|exact P2]|exact P3].
  - inversion H; subst. eapply I; exact L.
Qed.

Lemma crun_inv_fd (P : cworld -> Prop) :
  (forall w i w' e, first_delivery i -> P w -> cstep w i = Some (w', e) -> P w') ->
  forall l w w', Forall first_delivery l -> P w -> crun w l = Some w' -> P w'.
Proof.
  intros S l; induction l as [|i r IH]; cbn; intros w w' F Hw H; [inversion H; subst; exact Hw|].
  inversion F; subst. destruct (cstep w i) as [[w1 e]|] eqn:E; [|discriminate]. eapply IH; [assumption|eapply S; eauto|exact H].
Qed.

Theorem terminal_child_has_no_pending_task : forall l w c ok,
  Forall first_delivery l -> crun cinit l = Some w -> lookup c (kids w) = Some (CEnded ok) -> lookup c (pend w) = None.
Proof.
  intros l w c ok F R K. assert (I : PendOk w).
  { eapply (crun_inv_fd PendOk); [intros; eapply pend_ok_step; eauto|exact F| |exact R]. intros c0 q0 L; discriminate. }
  destruct (lookup c (pend w)) as [q|] eqn:L; [|reflexivity]. destruct (I c q L) as [[ph [P1 P2]] _]. rewrite K in P1; inversion P1; subst. exfalso; eapply P2; reflexivity.
Qed.

(* the completion with a child's record goes to the Task that started that child *)
Definition DoneBy (w : cworld) : Prop := forall t c ok, In (t, VChild c ok) (done w) -> In (c, t) (started w).
Lemma started_mono w i w' e x : cstep w i = Some (w', e) -> In x (started w) -> In x (started w').
Proof.
  intros H O. destruct i as [t0 p plog f c0 r n | c0 cl b | c0 clog cl ok0 | n clog own | t0 clog | ].
  - step_inv H; auto; apply in_or_app; now left.
  - step_inv H; auto.
  - step_inv H; auto.
  - unfold cstep in H. destruct (find_by_timer n (pend w)) as [[c1 q1]|]; [|discriminate].
    destruct (cancel_child _ c1 clog) as [[k a] ef]. inversion H; subst; exact O.
  - unfold cstep in H. destruct (find_by_task t0 (pend w)) as [[c1 q1]|]; [|discriminate].
    destruct (cancel_child _ c1 clog) as [[k a] ef]. inversion H; subst; exact O.
  - inversion H; subst; exact O.
Qed.
Lemma done_by_step w i w' e : first_delivery i -> PendOk w /\ DoneBy w -> cstep w i = Some (w', e) -> PendOk w' /\ DoneBy w'.
Proof.
  intros FD [PO DB] H. split; [eapply pend_ok_step; eauto|].
  intros t c ok Hin.
  assert (Old : In (t, VChild c ok) (done w) -> In (c, t) (started w')) by (intros O; eapply started_mono; eauto).
  destruct i as [t0 p plog f c0 r n | c0 cl b | c0 clog cl ok0 | n clog own | t0 clog | ].
  - step_inv H; try (apply Old; exact Hin); apply in_app_or in Hin as [O|[O|[]]]; try discriminate; apply Old; exact O.
  - apply Old. step_inv H; exact Hin.
  - unfold cstep in H. destruct (lookup c0 (kids w)) as [ph|] eqn:K; [|discriminate].
    destruct ph as [| m | o]; try discriminate;
      (destruct (leave _ cl (armed w)) as [[a0 pre]|]; [|discriminate]);
      (destruct (lookup c0 (pend w)) as [q|] eqn:L; inversion H; subst; cbn [done started] in *;
       [apply in_app_or in Hin as [O|[O|[]]]; [apply Old; exact O| inversion O; subst; apply (PO _ _ L)] | apply Old; exact Hin]).
  - unfold cstep in H. destruct (find_by_timer n (pend w)) as [[c1 q]|]; [|discriminate].
    destruct (cancel_child _ c1 clog) as [[k a] ef] eqn:C. inversion H; subst; cbn [done started] in *.
    apply in_app_or in Hin as [O|[O|[]]]; [|discriminate]. eapply DB; exact O.
  - unfold cstep in H. destruct (find_by_task t0 (pend w)) as [[c1 q]|]; [|discriminate].
    destruct (cancel_child _ c1 clog) as [[k a] ef] eqn:C. inversion H; subst; cbn [done started] in *.
    apply in_app_or in Hin as [O|[O|[]]]; [|discriminate]. eapply DB; exact O.
  - inversion H; subst. eapply DB; exact Hin.
Qed.

Theorem completion_goes_to_the_launching_task : forall l w t c ok,
  Forall first_delivery l -> crun cinit l = Some w -> In (t, VChild c ok) (done w) -> In (c, t) (started w).
Proof.
  intros l w t c ok F R. revert t c ok.
  assert (I : PendOk w /\ DoneBy w).
  { eapply (crun_inv_fd (fun w => PendOk w /\ DoneBy w)); [intros; eapply done_by_step; eauto|exact F| |exact R].
    split; [intros c0 q0 L; discriminate|intros t c ok []]. }
  exact (proj2 I).
Qed.

(* ---- step-level statements ---- *)
(* T5: when the launching Task times out or is cancelled while its child is blocked, the timer the child is blocked on is cleared,
   the child ends FAILED in the same handler invocation, and nothing of the child can run afterwards *)
Theorem timeout_cancels_blocked_child : forall w n clog own c q m,
  find_by_timer n (pend w) = Some (c, q) -> lookup c (kids w) = Some (CBlocked m) ->
  exists w' e, cstep w (ITimeout n clog own) = Some (w', e) /\
    In (XClearTimer m) e /\ In (XNotify c false) e /\ lookup c (kids w') = Some (CEnded false) /\ lookup c (pend w') = None /\
    In (q_task q, VTimeout) (done w') /\
    (forall cl b, cstep w' (IChildMove c cl b) = None) /\ (forall cg cl ok, cstep w' (IChildEnd c cg cl ok) = None).
Proof.
  intros w n clog own c q m F K. unfold cstep. rewrite F. unfold cancel_child; cbn [kids armed]. rewrite K.
  eexists; eexists; split; [reflexivity|]. cbn [pend kids done].
  repeat split; try (rewrite !in_app_iff; cbn [In]; auto 10; fail).
  - apply lookup_set_eq.
  - apply lookup_remove_eq.
  - intros cl b. rewrite lookup_set_eq. reflexivity.
  - intros cg cl ok. rewrite lookup_set_eq. reflexivity.
Qed.

Theorem cancel_reaches_blocked_child : forall w t clog c q m,
  find_by_task t (pend w) = Some (c, q) -> lookup c (kids w) = Some (CBlocked m) ->
  exists w' e, cstep w (ICancel t clog) = Some (w', e) /\
    In (XClearTimer (q_timer q)) e /\ In (XClearTimer m) e /\ In (XNotify c false) e /\
    lookup c (kids w') = Some (CEnded false) /\ lookup c (pend w') = None /\ In (q_task q, VTerminated) (done w').
Proof.
  intros w t clog c q m F K. unfold cstep. rewrite F. unfold cancel_child; cbn [kids armed]. rewrite K.
  eexists; eexists; split; [reflexivity|]. cbn [pend kids done].
  repeat split; try (rewrite !in_app_iff; cbn [In]; auto 10; fail).
  - apply lookup_set_eq.
  - apply lookup_remove_eq.
Qed.

(* T6: a fire-and-forget launch completes its Task in the same handler invocation, after the start event has been published *)
Theorem async_launch_completes_at_once : forall w t p plog c n w' e,
  cstep w (ILaunch t p plog FAsync c false n) = Some (w', e) ->
  done w' = done w ++ [(t, VLaunched c)] /\ pend w' = pend w /\
  exists mid_, e = XStart c true :: mid_ ++ [XAck t].
Proof.
  intros w t p plog c n w' e H. unfold cstep in H. cbn [negb andb] in H.
  destruct (lookup c (kids w)); cbn in H; [discriminate|]. inversion H; subst; cbn.
  split; [reflexivity|split; [reflexivity|]]. eexists. rewrite <- app_assoc. reflexivity.
Qed.

(* the child's end and the hand-over to the parent Task are one handler invocation: record first, then the Task, then the notification *)
Theorem child_end_hands_over_in_the_same_invocation : forall w c clog cl ok q w' e,
  lookup c (pend w) = Some q -> cstep w (IChildEnd c clog cl ok) = Some (w', e) ->
  done w' = done w ++ [(q_task q, VChild c ok)] /\ lookup c (pend w') = None /\ lookup c (kids w') = Some (CEnded ok) /\
  exists pre, e = pre ++ [XClearTimer (q_timer q)] ++ hist_if (q_plog q) (XHist (q_parent q) (if ok then KSucceeded else KFailed)) ++ [XAck (q_task q); XNotify c ok].
Proof.
  intros w c clog cl ok q w' e L H. unfold cstep in H. rewrite L in H.
  destruct (lookup c (kids w)) as [[| m | o]|]; try discriminate;
    (destruct (leave _ cl (armed w)) as [[a0 pre]|]; [|discriminate]); inversion H; subst; cbn [done pend kids];
    (split; [reflexivity|split; [apply lookup_remove_eq|split; [apply lookup_set_eq|]]]);
    exists (pre ++ hist_if clog (XEnd c ok)); rewrite <- !app_assoc; reflexivity.
Qed.

(* ---- the redelivered launch: known finding F34 as a theorem about the model ---- *)
(* the engine restarts while a synchronous child is running; the child ends before the parent's redelivered Task event has registered
   its request again: the Task is pending, its child is terminal, nothing was handed over, and no step of the child can ever do it *)
Theorem child_end_before_redelivered_launch_refuted :
  exists w1 w3, crun cinit [ILaunch 5 0 true FSync 1 false 9] = Some w1 /\
                crun (crash w1) [IChildEnd 1 true false true; ILaunch 5 0 true FSync 1 true 10] = Some w3 /\
                lookup 1 (kids w3) = Some (CEnded true) /\ (exists q, lookup 1 (pend w3) = Some q /\ q_task q = 5) /\ done w3 = [] /\
                (forall cg cl ok, cstep w3 (IChildEnd 1 cg cl ok) = None).
Proof.
  eexists; eexists. split; [reflexivity|]. split; [reflexivity|]. cbn. repeat split. eexists; split; reflexivity.
Qed.
