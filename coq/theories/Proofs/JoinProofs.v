From Coq Require Import List Arith Bool Lia Permutation.
Import ListNotations.
From LSF Require Import Join.

Lemma set_nth_length {A} i (v : A) l : length (set_nth i v l) = length l.
Proof. revert i; induction l as [|x l IH]; intros [|i]; cbn; auto. Qed.

Lemma nth_set_same {A} i (v : A) l : i < length l -> nth_error (set_nth i v l) i = Some v.
Proof. revert i; induction l as [|x l IH]; intros [|i] H; cbn in *; try lia; auto. apply IH. lia. Qed.

Lemma nth_set_other {A} i j (v : A) l : i <> j -> nth_error (set_nth i v l) j = nth_error l j.
Proof. revert i j; induction l as [|x l IH]; intros [|i] [|j] H; cbn; auto; try lia. Qed.

(* writing the results of the branches in `order` into an array of n empty slots *)
Definition deliver_all {A} (n : nat) (vs : list A) (d : A) (order : list nat) : list (option A) :=
  fold_left (fun r i => set_nth i (Some (nth i vs d)) r) order (repeat None n).

Lemma fold_set_length {A} (vs : list A) d order r :
  length (fold_left (fun r i => set_nth i (Some (nth i vs d)) r) order r) = length r.
Proof. revert r; induction order as [|i o IH]; intros r; cbn; [reflexivity|]. rewrite IH. apply set_nth_length. Qed.

Lemma fold_set_nth {A} (vs : list A) d order : forall r j, j < length r ->
  nth_error (fold_left (fun r i => set_nth i (Some (nth i vs d)) r) order r) j =
  if existsb (Nat.eqb j) order then Some (Some (nth j vs d)) else nth_error r j.
Proof.
  induction order as [|i o IH]; intros r j Hj; cbn [fold_left existsb]; [reflexivity|].
  rewrite IH by (rewrite set_nth_length; exact Hj).
  destruct (existsb (Nat.eqb j) o) eqn:E; [rewrite orb_true_r; reflexivity|]. rewrite orb_false_r.
  destruct (Nat.eqb_spec j i) as [->|N]; [apply nth_set_same; exact Hj|apply nth_set_other; congruence].
Qed.

Lemma nth_error_ext {A} (a b : list A) : length a = length b -> (forall j, j < length a -> nth_error a j = nth_error b j) -> a = b.
Proof.
  revert b; induction a as [|x a IH]; intros [|y b] L H; cbn in *; try discriminate; [reflexivity|].
  f_equal; [specialize (H 0 ltac:(lia)); cbn in H; congruence|]. apply IH; [lia|]. intros j Hj. apply (H (S j)). lia.
Qed.

(* C05: whatever order the branches finish in, slot i holds branch i's output *)
Theorem join_order_independent {A} (vs : list A) d order :
  Permutation order (seq 0 (length vs)) -> deliver_all (length vs) vs d order = map Some vs.
Proof.
  intros P. unfold deliver_all. apply nth_error_ext.
  - rewrite fold_set_length, repeat_length, map_length. reflexivity.
  - intros j Hj. rewrite fold_set_length, repeat_length in Hj. rewrite fold_set_nth by (rewrite repeat_length; exact Hj).
    assert (existsb (Nat.eqb j) order = true) as ->.
    { apply existsb_exists. exists j. split; [|apply Nat.eqb_refl]. apply (Permutation_in j (Permutation_sym P)). apply in_seq. lia. }
    rewrite nth_error_map. rewrite (nth_error_nth' vs d Hj). reflexivity.
Qed.

Lemma all_some_nth {A} (l : list (option A)) : all_some l = true <-> forall j, j < length l -> nth_error l j <> Some None.
Proof.
  unfold all_some. induction l as [|x l IH]; cbn [forallb length].
  - split; [intros _ j Hj; lia|reflexivity].
  - rewrite andb_true_iff, IH. split.
    + intros (Hx & Hl) [|j] Hj; cbn; [destruct x; [discriminate|discriminate]|apply Hl; lia].
    + intros H. split; [specialize (H 0 ltac:(lia)); cbn in H; destruct x; [reflexivity|congruence]|]. intros j Hj. apply (H (S j)). lia.
Qed.

(* C05: the join does not happen while a branch is missing: with any NoDup set of finished branches
   that is not all of them, some slot is still empty *)
Theorem join_waits_for_all {A} (vs : list A) d order j :
  j < length vs -> ~ In j order -> all_some (deliver_all (length vs) vs d order) = false.
Proof.
  intros Hj Hn. destruct (all_some _) eqn:E; [|reflexivity]. exfalso.
  pose proof (proj1 (all_some_nth _) E) as E'. apply (E' j).
  - unfold deliver_all. rewrite fold_set_length, repeat_length. exact Hj.
  - unfold deliver_all. rewrite fold_set_nth by (rewrite repeat_length; exact Hj).
    assert (existsb (Nat.eqb j) order = false) as ->.
    { destruct (existsb _ _) eqn:X; [|reflexivity]. apply existsb_exists in X as (k & Hk & Ek). apply Nat.eqb_eq in Ek. subst. contradiction. }
    apply nth_error_repeat. exact Hj.
Qed.

(* and when all have finished the join yields exactly the outputs in index order *)
Theorem join_complete {A} (vs : list A) d order :
  Permutation order (seq 0 (length vs)) ->
  all_some (deliver_all (length vs) vs d order) = true /\ somes (deliver_all (length vs) vs d order) = vs.
Proof.
  intros P. rewrite (join_order_independent vs d order P). split.
  - clear P. unfold all_some. induction vs as [|v vs IH]; cbn; [reflexivity|exact IH].
  - clear P. induction vs as [|v vs IH]; cbn; [reflexivity|]. f_equal. exact IH.
Qed.

(* ---------------------------------------------------------------- MaxConcurrency *)
Lemma batch_end_bounds mc n s : s < n -> s < batch_end mc n s <= n /\ (mc <> 0 -> batch_end mc n s - s <= mc).
Proof. unfold batch_end. destruct (Nat.eqb_spec mc 0); intros; lia. Qed.

Lemma batches_from_spec fuel mc n : forall s, s <= n -> n - s <= fuel ->
  flat_map (fun b => seq (fst b) (snd b - fst b)) (batches_from fuel mc n s) = seq s (n - s) /\
  (mc <> 0 -> forall b, In b (batches_from fuel mc n s) -> snd b - fst b <= mc).
Proof.
  induction fuel as [|f IH]; intros s Hs Hf.
  - assert (n - s = 0) as -> by lia. cbn. split; [reflexivity|intros _ b []].
  - cbn [batches_from]. destruct (Nat.ltb_spec s n) as [L|L].
    + destruct (batch_end_bounds mc n s L) as ((B1 & B2) & B3). cbv zeta.
      destruct (IH (batch_end mc n s) B2 ltac:(lia)) as (I1 & I2). split.
      * cbn [flat_map fst snd]. rewrite I1.
        replace (n - s) with ((batch_end mc n s - s) + (n - batch_end mc n s)) by lia.
        rewrite seq_app. replace (s + (batch_end mc n s - s)) with (batch_end mc n s) by lia. reflexivity.
      * intros M b [<-|Hb]; [cbn; apply B3; exact M|apply I2; assumption].
    + assert (n - s = 0) as -> by lia. cbn. split; [reflexivity|intros _ b []].
Qed.

(* C05: the blocks launch every item exactly once, in order, and no block is larger than MaxConcurrency *)
Theorem batches_partition mc n :
  flat_map (fun b => seq (fst b) (snd b - fst b)) (batches mc n) = seq 0 n /\
  (mc <> 0 -> forall b, In b (batches mc n) -> snd b - fst b <= mc).
Proof.
  unfold batches. destruct (batches_from_spec n mc n 0 ltac:(lia) ltac:(lia)) as (H1 & H2). rewrite Nat.sub_0_r in H1. split; assumption.
Qed.

(* C05: the next block is only launched when every iteration of the current block has delivered *)
Theorem next_batch_only_when_complete {A} mc (r : list (option A)) ev_start i v r' s' e' :
  collect mc r ev_start i v = (r', JNextBatch s' e') ->
  s' = batch_end mc (length r) ev_start /\ all_some (slice ev_start s' r') = true /\ mc <> 0 /\ all_some r' = false.
Proof.
  unfold collect. rewrite set_nth_length. destruct (all_some (set_nth i (Some v) r)) eqn:E1; [discriminate|].
  destruct (negb (Nat.eqb mc 0) && _) eqn:E2; [|discriminate]. intros H. inversion H; subst.
  apply andb_prop in E2 as (M & S). repeat split; try assumption. destruct (Nat.eqb_spec mc 0); [discriminate|assumption].
Qed.

(* C05: the join happens exactly when no slot is empty, with the outputs in index order *)
Theorem join_iff_all_some {A} mc (r : list (option A)) ev_start i v :
  (exists out, snd (collect mc r ev_start i v) = JJoin out) <-> all_some (set_nth i (Some v) r) = true.
Proof.
  unfold collect. destruct (all_some (set_nth i (Some v) r)); cbn.
  - split; [reflexivity|intros _; eexists; reflexivity].
  - split; [|discriminate]. intros (out & H). destruct (_ && _) in H; discriminate.
Qed.

(* ------------------------------------------------------------ the system: at most mc in flight *)
Definition jinv {A} (mc n : nat) (s : jst A) : Prop :=
  NoDup (inflight s) /\ (forall j, In j (inflight s) -> jstart s <= j < batch_end mc n (jstart s)) /\ length (res s) = n.

Lemma remove_nat_in i l j : In j (remove_nat i l) -> In j l.
Proof. induction l as [|x l IH]; cbn; [tauto|]. destruct (Nat.eqb x i); intros H; [right; exact H|]. destruct H; [left; assumption|right; auto]. Qed.
Lemma remove_nat_nodup i l : NoDup l -> NoDup (remove_nat i l).
Proof.
  induction l as [|x l IH]; cbn; intros H; [constructor|]. inversion H; subst. destruct (Nat.eqb x i); [assumption|].
  constructor; [intros F; apply remove_nat_in in F; contradiction|auto].
Qed.

Lemma jinit_inv {A} mc n : jinv mc n (@jinit A mc n).
Proof.
  unfold jinv, jinit. cbn. repeat split.
  - apply seq_NoDup.
  - lia.
  - apply in_seq in H. lia.
  - apply repeat_length.
Qed.

Lemma collect_length {A} mc (r : list (option A)) s i v : length (fst (collect mc r s i v)) = length r.
Proof. unfold collect. destruct (all_some _); [cbn; apply set_nth_length|]. destruct (_ && _); cbn; apply set_nth_length. Qed.

Lemma jstep_inv {A} mc n (s s' : jst A) i v a : jinv mc n s -> jstep mc s i v = Some (s', a) -> jinv mc n s'.
Proof.
  intros (Nd & In_ & Len) H. unfold jstep in H. destruct (existsb _ _); [|discriminate].
  destruct (collect mc (res s) (jstart s) i v) as [r' a'] eqn:C.
  assert (length r' = n) as Lr by (pose proof (collect_length mc (res s) (jstart s) i v) as L; rewrite C in L; cbn in L; lia).
  destruct a' as [|b e|out].
  - inversion H as [[Hs Ha]]; clear H. repeat split; cbn; [apply remove_nat_nodup; exact Nd|apply In_; eapply remove_nat_in; eassumption|apply In_; eapply remove_nat_in; eassumption|exact Lr].
  - inversion H as [[Hs Ha]]; clear H. destruct (next_batch_only_when_complete _ _ _ _ _ _ _ _ C) as (Eb & _).
    assert (e = batch_end mc (length (res s)) b) as Ee.
    { unfold collect in C. rewrite set_nth_length in C. destruct (all_some _); [discriminate|]. destruct (_ && _); [|discriminate]. inversion C. reflexivity. }
    split; [cbn; apply seq_NoDup|]. split; [|exact Lr]. cbn [inflight jstart]. intros j Hj. apply in_seq in Hj. rewrite Ee, Len in *. lia.
  - inversion H as [[Hs Ha]]; clear H. repeat split; cbn; [apply remove_nat_nodup; exact Nd|apply In_; eapply remove_nat_in; eassumption|apply In_; eapply remove_nat_in; eassumption|exact Lr].
Qed.

(* C05: with MaxConcurrency mc > 0 never more than mc iterations are in flight, in any reachable state *)
Theorem inflight_bounded {A} mc n (s : jst A) : mc <> 0 -> jinv mc n s -> length (inflight s) <= mc.
Proof.
  intros M (Nd & In_ & _).
  assert (incl (inflight s) (seq (jstart s) (batch_end mc n (jstart s) - jstart s))) as I.
  { intros j Hj. apply In_ in Hj. apply in_seq. lia. }
  pose proof (NoDup_incl_length Nd I) as L. rewrite seq_length in L.
  unfold batch_end in L. destruct (Nat.eqb_spec mc 0); [contradiction|]. lia.
Qed.

Fixpoint jrun {A} (mc : nat) (s : jst A) (l : list (nat * A)) : option (jst A) :=
  match l with
  | [] => Some s
  | (i, v) :: r => match jstep mc s i v with Some (s', _) => jrun mc s' r | None => None end
  end.

Theorem inflight_bounded_always {A} mc n (l : list (nat * A)) s :
  mc <> 0 -> jrun mc (jinit mc n) l = Some s -> length (inflight s) <= mc.
Proof.
  intros M H. apply (inflight_bounded mc n s M). revert H. generalize (@jinit_inv A mc n). generalize (@jinit A mc n).
  induction l as [|[i v] l IH]; intros s0 I0 H; cbn in H; [inversion H; subst; exact I0|].
  destruct (jstep mc s0 i v) as [[s1 a]|] eqn:E; [|discriminate]. apply (IH s1); [eapply jstep_inv; eassumption|exact H].
Qed.
