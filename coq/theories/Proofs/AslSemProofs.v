(* Facts about the big-step semantics that pin down what C01's text says (order of
   application, Fail, branch order). *)
From LSF Require Import PyStr Json Dumps GenTypes PathSpec Paths Template Choice AslSem.
Open Scope string_scope.

(* a Pass state: InputPath, then Parameters, then Result (or the effective input), then ResultPath
   into the RAW input, then OutputPath - in that order *)
Lemma pass_order orc f st name data ctx cnt input params out ip :
  obj_get st "Type" = Some (JStr "Pass") ->
  field_path st "InputPath" = Some ip ->
  apply_path_m data ctx ip = Some (Ok input) ->
  eval_template TF input ctx (obj_get st "Parameters") = Some (Ok params) ->
  merge st data ctx (match obj_get st "Result" with Some r => r | None => params end) = Some (Ok out) ->
  eval_state orc (S f) st name data ctx cnt =
  (if truthy (match obj_get st "End" with Some b => b | None => JBool false end) then SEnd out
   else match obj_get st "Next" with Some n => SNext n out | None => caught_or_failed st data ctx "States.Runtime" end, cnt).
Proof.
  intros Ht Hip Hin Hp Hm. cbn [eval_state]. rewrite Ht.
  replace (String.eqb "Pass" "Fail") with false by reflexivity. rewrite Hip, Hin.
  replace (String.eqb "Pass" "Succeed" || String.eqb "Pass" "Wait") with false by reflexivity.
  replace (String.eqb "Pass" "Choice") with false by reflexivity.
  replace (String.eqb "Pass" "Pass") with true by reflexivity.
  unfold opt_template. rewrite Hp. unfold finish. rewrite Hm.
  destruct (truthy _); [reflexivity|]. destruct (obj_get st "Next"); reflexivity.
Qed.

(* a Fail state reports its Error *)
Lemma fail_reports_error orc f st name data ctx cnt e :
  obj_get st "Type" = Some (JStr "Fail") -> obj_get st "Error" = Some (JStr e) ->
  eval_state orc (S f) st name data ctx cnt = (SFail e, cnt).
Proof.
  intros Ht He. cbn [eval_state]. rewrite Ht. replace (String.eqb "Fail" "Fail") with true by reflexivity.
  rewrite He. reflexivity.
Qed.

(* a Succeed state ends the (sub)machine successfully with OutputPath(InputPath(raw)) *)
Lemma succeed_ends orc f st name data ctx cnt ip op input out :
  obj_get st "Type" = Some (JStr "Succeed") ->
  field_path st "InputPath" = Some ip -> apply_path_m data ctx ip = Some (Ok input) ->
  field_path st "OutputPath" = Some op -> apply_path_m input ctx op = Some (Ok out) ->
  eval_state orc (S f) st name data ctx cnt = (SEnd out, cnt).
Proof.
  intros Ht Hip Hin Hop Hout. cbn [eval_state]. rewrite Ht.
  replace (String.eqb "Succeed" "Fail") with false by reflexivity. rewrite Hip, Hin.
  replace (String.eqb "Succeed" "Succeed" || String.eqb "Succeed" "Wait") with true by reflexivity.
  rewrite Hop, Hout. reflexivity.
Qed.

(* a Choice state goes where the rules of C14 say *)
Lemma choice_follows_rules orc f st name data ctx cnt ip input :
  obj_get st "Type" = Some (JStr "Choice") ->
  field_path st "InputPath" = Some ip -> apply_path_m data ctx ip = Some (Ok input) ->
  eval_state orc (S f) st name data ctx cnt =
  (match choice_state st data ctx with ChNext n out => SNext n out | ChFail e => SFail e | ChOut => SOut end, cnt).
Proof.
  intros Ht Hip Hin. cbn [eval_state]. rewrite Ht.
  replace (String.eqb "Choice" "Fail") with false by reflexivity. rewrite Hip, Hin.
  replace (String.eqb "Choice" "Succeed" || String.eqb "Choice" "Wait") with false by reflexivity.
  replace (String.eqb "Choice" "Choice") with true by reflexivity.
  destruct (choice_state st data ctx); reflexivity.
Qed.

(* an execution is SUCCEEDED exactly when its machine reaches a Succeed/End state, FAILED exactly
   when a state fails without being handled *)
Lemma execution_outcome orc fuel m input ctx :
  match run_execution fuel orc (JObj m) input ctx with
  | XSucceeded out => exists cnt, run_machine orc fuel m input ctx [] = (XSucceeded out, cnt)
  | XFailed e => exists cnt, run_machine orc fuel m input ctx [] = (XFailed e, cnt)
  | _ => True
  end.
Proof.
  unfold run_execution. destruct (run_machine orc fuel m input ctx []) as [r cnt]. cbn [fst].
  destruct r; eauto.
Qed.
