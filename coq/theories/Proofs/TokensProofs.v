From Coq Require Import List Arith Bool String Ascii Lia.
Import ListNotations.
From LSF Require Import Tokens.

Lemma in_remove_tok t u l : In u (remove_tok t l) <-> In u l /\ u <> t.
Proof. induction l as [|x l IH]; cbn; [tauto|]. destruct (Nat.eqb_spec x t); cbn; rewrite IH; intuition congruence. Qed.

Lemma count_app' {A} (f : A -> bool) a b : List.length (filter f (a ++ b)) = List.length (filter f a) + List.length (filter f b).
Proof. rewrite filter_app, app_length. reflexivity. Qed.

(* a callback presenting a token completes exactly the task that holds it, with exactly the supplied result;
   every other task is left waiting *)
Theorem callback_completes_its_task s t r :
  In t (waiting s) ->
  let s' := tstep s (TCallback t r) in
  completed s' = completed s ++ [(t, r)] /\ ~ In t (waiting s') /\ forall u, u <> t -> (In u (waiting s') <-> In u (waiting s)).
Proof.
  intros H. cbn. assert (existsb (Nat.eqb t) (waiting s) = true) as -> by (apply existsb_exists; exists t; split; [exact H|apply Nat.eqb_refl]).
  cbn. split; [reflexivity|]. split; [intros F; apply in_remove_tok in F; tauto|]. intros u N. rewrite in_remove_tok. tauto.
Qed.

(* a token that no waiting task holds (forged, duplicate, late) affects no task *)
Theorem foreign_token_affects_nothing s t r : ~ In t (waiting s) -> tstep s (TCallback t r) = s.
Proof.
  intros H. cbn. assert (existsb (Nat.eqb t) (waiting s) = false) as ->; [|reflexivity].
  destruct (existsb _ _) eqn:E; [|reflexivity]. apply existsb_exists in E as (x & Hx & Ex). apply Nat.eqb_eq in Ex. subst. contradiction.
Qed.

Lemma waiting_nodup_inv s o : NoDup (waiting s) -> NoDup (waiting (tstep s o)).
Proof.
  assert (forall t l, NoDup l -> NoDup (remove_tok t l)) as R.
  { intros t l. induction l as [|x l IH]; cbn; intros H; [constructor|]. inversion H; subst. destruct (Nat.eqb x t); [auto|].
    constructor; [intros F; apply in_remove_tok in F; tauto|auto]. }
  intros H. destruct o; cbn; try assumption.
  - constructor; [intros F; apply in_remove_tok in F; tauto|apply R; exact H].
  - destruct (existsb _ _); cbn; [apply R; exact H|exact H].
  - apply R; exact H.
Qed.

(* for every history: a task is completed at most once per time it started waiting *)
Theorem completed_at_most_once l t : forall s, NoDup (waiting s) ->
  completions_of t (trun s l) <= completions_of t s + (if existsb (Nat.eqb t) (waiting s) then 1 else 0) + starts_of t l.
Proof.
  induction l as [|o l IH]; intros s Nd; cbn [trun]; [unfold starts_of; cbn; lia|].
  specialize (IH (tstep s o) (waiting_nodup_inv s o Nd)).
  assert (forall u w, existsb (Nat.eqb u) w = true <-> In u w) as EX.
  { intros u w. rewrite existsb_exists. split; [intros (x & Hx & E); apply Nat.eqb_eq in E; subst; exact Hx|intros H; exists u; split; [exact H|apply Nat.eqb_refl]]. }
  unfold starts_of in *. cbn [filter]. destruct o as [u|u r|u|u]; cbn [tstep] in IH |- *.
  - destruct (Nat.eqb_spec u t) as [->|N]; cbn [List.length] in *.
    + cbn [waiting completed existsb] in IH. rewrite Nat.eqb_refl in IH. cbn in IH. unfold completions_of in *. cbn [completed] in IH. destruct (existsb (Nat.eqb t) (waiting s)); lia.
    + cbn [waiting completed existsb] in IH. rewrite (proj2 (Nat.eqb_neq t u)) in IH by congruence. cbn [orb] in IH.
      assert (existsb (Nat.eqb t) (remove_tok u (waiting s)) = existsb (Nat.eqb t) (waiting s)) as E.
      { apply eq_true_iff_eq. rewrite !EX, in_remove_tok. intuition congruence. }
      rewrite E in IH. unfold completions_of in *. cbn [completed] in IH. exact IH.
  - destruct (existsb (Nat.eqb u) (waiting s)) eqn:Eu; cbn [waiting completed] in IH; [|exact IH].
    unfold completions_of in *. cbn [completed] in IH. rewrite count_app' in IH. cbn [filter fst] in IH.
    destruct (Nat.eqb_spec u t) as [E0|N].
    + subst u. rewrite Eu.
      assert (existsb (Nat.eqb t) (remove_tok t (waiting s)) = false) as E.
      { destruct (existsb (Nat.eqb t) (remove_tok t (waiting s))) eqn:X; [|reflexivity]. apply EX in X. apply in_remove_tok in X. tauto. }
      rewrite E in IH. cbn [List.length] in IH. lia.
    + assert (existsb (Nat.eqb t) (remove_tok u (waiting s)) = existsb (Nat.eqb t) (waiting s)) as E.
      { apply eq_true_iff_eq. rewrite !EX, in_remove_tok. intuition congruence. }
      rewrite E in IH. cbn [List.length] in IH. lia.
  - exact IH.
  - unfold completions_of in *. cbn [waiting completed] in IH.
    assert ((if existsb (Nat.eqb t) (remove_tok u (waiting s)) then 1 else 0) <= (if existsb (Nat.eqb t) (waiting s) then 1 else 0)) as E.
    { destruct (existsb (Nat.eqb t) (remove_tok u (waiting s))) eqn:X; [|destruct (existsb _ _); lia]. apply EX in X. apply in_remove_tok in X as (X & _). apply EX in X. rewrite X. lia. }
    lia.
Qed.

(* starting from nothing: at most as many completions as starts, whatever callbacks, replies and timeouts arrive in whatever order *)
Corollary never_more_completions_than_starts l t : completions_of t (trun tinit l) <= starts_of t l.
Proof. pose proof (completed_at_most_once l t tinit (NoDup_nil _)) as H. cbn in H. exact H. Qed.

(* capitalising the first letter leaves the rest of a field name alone (str.capitalize() does not) *)
Theorem cap_first_keeps_tail c r : cap_first (String c r) = String (upper c) r.
Proof. reflexivity. Qed.

Example documented_names :
  map cap_first ["executionArn"; "input"; "name"; "output"; "startDate"; "stateMachineArn"; "status"; "stopDate"; "error"; "cause"]%string
  = ["ExecutionArn"; "Input"; "Name"; "Output"; "StartDate"; "StateMachineArn"; "Status"; "StopDate"; "Error"; "Cause"]%string.
Proof. reflexivity. Qed.
