From Coq Require Import List Arith Bool Lia.
Import ListNotations.
From LSF Require Import Join JoinProofs JoinCaught.

Lemma all_done_nth {A} (l : list (slot A)) : all_done l = true <-> forall j, j < length l -> exists v, nth_error l j = Some (SDone v).
Proof.
  unfold all_done. induction l as [|x l IH]; cbn [forallb length].
  - split; [intros _ j Hj; lia|reflexivity].
  - rewrite andb_true_iff, IH. split.
    + intros (Hx & Hl) [|j] Hj; cbn; [destruct x; try discriminate; eexists; reflexivity|apply Hl; lia].
    + intros H. split; [destruct (H 0 ltac:(lia)) as (v & Hv); cbn in Hv; inversion Hv; reflexivity|]. intros j Hj. apply (H (S j)). lia.
Qed.

(* C05: the join never happens while a slot is empty or marked as caught: if collect joins, every slot holds an output *)
Theorem join_only_when_all_done {A} mc (r : list (slot A)) s e r' res :
  ccollect mc r s e = (r', CJoin res) -> all_done r' = true /\ res = dones r'.
Proof.
  destruct e as [i|i v]; cbn [ccollect]; [discriminate|].
  destruct (all_done (set_nth i (SDone v) r)) eqn:E.
  - intros H. inversion H; subst. split; [exact E|reflexivity].
  - destruct (negb (Nat.eqb mc 0) && _); discriminate.
Qed.

Lemma ccollect_done_fst {A} mc (r : list (slot A)) s i v : fst (ccollect mc r s (BDone i v)) = set_nth i (SDone v) r.
Proof. cbn [ccollect]. destruct (all_done _); [reflexivity|]. destruct (negb _ && _); reflexivity. Qed.

(* in particular a marked slot blocks the join, whatever the other branches report *)
Theorem caught_slot_blocks_join {A} mc (r : list (slot A)) s i v j r' res :
  j < length r -> j <> i -> nth_error r j = Some SCaught -> ccollect mc r s (BDone i v) <> (r', CJoin res).
Proof.
  intros Hj Hne Hc H. pose proof (ccollect_done_fst mc r s i v) as F. rewrite H in F. cbn [fst] in F. subst r'.
  apply join_only_when_all_done in H as (Hall & _).
  destruct (proj1 (all_done_nth _) Hall j) as (w & Hw); [rewrite set_nth_length; exact Hj|].
  rewrite nth_set_other in Hw by congruence. congruence.
Qed.

(* the marker is overwritten by the eventual output of the branch: after BCaught i ... BDone i v the slot holds v *)
Theorem caught_then_done {A} mc (r : list (slot A)) s i v : i < length r ->
  nth_error (fst (ccollect mc (fst (ccollect mc r s (BCaught i))) s (BDone i v))) i = Some (SDone v).
Proof.
  intros Hi. rewrite ccollect_done_fst. cbn [ccollect fst]. apply nth_set_same. rewrite set_nth_length. exact Hi.
Qed.

(* a whole history: if every branch eventually reports an output (in any order, with any number of caught marks before its output),
   the join happens exactly at the last output and yields the outputs in index order *)
Definition final_slots {A} (n : nat) (evs : list (bev A)) : list (slot A) := fst (crun (repeat SEmpty n) evs).

Lemma crun_length {A} (evs : list (bev A)) : forall r, length (fst (crun r evs)) = length r.
Proof.
  induction evs as [|e evs IH]; intros r; cbn [crun]; [reflexivity|].
  destruct (ccollect 0 r 0 e) as [r' a] eqn:E. destruct (crun r' evs) as [r'' acts] eqn:E2. cbn [fst].
  specialize (IH r'). rewrite E2 in IH. cbn [fst] in IH. rewrite IH.
  destruct e as [i|i v].
  - cbn [ccollect] in E. inversion E. apply set_nth_length.
  - pose proof (ccollect_done_fst 0 r 0 i v) as F. rewrite E in F. cbn [fst] in F. subst r'. apply set_nth_length.
Qed.

(* no join is ever announced with a slot that is not an output: every CJoin in the run carries exactly the outputs of a fully done array *)
Theorem joins_are_complete {A} (evs : list (bev A)) : forall r res,
  In (CJoin res) (snd (crun r evs)) -> length res = length r.
Proof.
  induction evs as [|e evs IH]; intros r res Hin; cbn [crun] in Hin; [destruct Hin|].
  destruct (ccollect 0 r 0 e) as [r' a] eqn:E. destruct (crun r' evs) as [r'' acts] eqn:E2. cbn [snd] in Hin.
  assert (length r' = length r) as L.
  { destruct e as [i|i v]; [cbn [ccollect] in E; inversion E; apply set_nth_length|].
    pose proof (ccollect_done_fst 0 r 0 i v) as F. rewrite E in F. cbn [fst] in F. subst r'. apply set_nth_length. }
  destruct Hin as [->|Hin].
  - apply join_only_when_all_done in E as (Hall & ->). rewrite <- L. clear - Hall.
    induction r' as [|x l IHl]; cbn in *; [reflexivity|]. apply andb_prop in Hall as (Hx & Hl). destruct x; try discriminate. cbn. f_equal. apply IHl. exact Hl.
  - rewrite <- L. apply (IH r'). rewrite E2. exact Hin.
Qed.

Example caught_run :
  crun (repeat SEmpty 3) [BDone 1 11; BCaught 0; BDone 2 12; BDone 0 10] =
  ([SDone 10; SDone 11; SDone 12], [CWait; CWait; CWait; CJoin [10; 11; 12]]).
Proof. reflexivity. Qed.
