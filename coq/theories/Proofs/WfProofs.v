From Coq Require Import List Arith Bool String Lia.
Import ListNotations.
From LSF Require Import PyStr Json Wf.
Open Scope string_scope.

Lemma obj_get_in (kv : obj) k v : obj_get kv k = Some v -> In (k, v) kv.
Proof. induction kv as [|[a b] kv IH]; cbn; [discriminate|]. destruct (String.eqb_spec a k); [intros H; inversion H; subst; left; reflexivity|intros H; right; apply IH; exact H]. Qed.

Lemma wf_mono d m : wf d m = true -> wf (S d) m = true.
Proof.
  revert m. induction d as [|d IH]; intros m H; [discriminate|].
  cbn [wf] in *. destruct (start_of m); [|discriminate]. apply andb_prop in H as (H1 & H2). rewrite H1. cbn [andb].
  apply forallb_forall. intros [k v] Hin. pose proof (proj1 (forallb_forall _ _) H2 (k, v) Hin) as Hk. cbn [snd] in *.
  destruct v; try discriminate. apply andb_prop in Hk as (K1 & K2). rewrite K1. cbn [andb].
  apply forallb_forall. intros b Hb. apply IH. apply (proj1 (forallb_forall _ _) K2 b Hb).
Qed.

(* C18: a well-formed machine never runs into an illegal-machine failure, on any path of any length, at any nesting depth *)
Theorem wf_never_illegal : forall fuel d m name, wf d m = true -> has_state m name = true -> illegal fuel m name = false.
Proof.
  induction fuel as [|f IH]; intros d m name W Hs; [reflexivity|].
  cbn [illegal]. unfold has_state in Hs. destruct (obj_get (states_of m) name) as [[| | | | | |st]|] eqn:E; try discriminate.
  destruct d as [|d]; [discriminate|]. cbn [wf] in W. destruct (start_of m) as [s0|] eqn:S0; [|discriminate].
  apply andb_prop in W as (W0 & W1). pose proof (proj1 (forallb_forall _ _) W1 (name, JObj st) (obj_get_in _ _ _ E)) as K. cbn [snd] in K.
  apply andb_prop in K as (K1 & K2). unfold state_ok in K1. cbv zeta in K1. apply andb_prop in K1 as (K1 & Kbd). apply negb_true_iff in Kbd. apply andb_prop in K1 as (K1 & K1d). apply andb_prop in K1 as (K1 & K1c). apply andb_prop in K1 as (K1a & K1b).
  rewrite K1a, K1b, Kbd, andb_false_r. cbn [negb orb].
  assert (existsb (fun b => match start_of b with Some s1 => illegal f b s1 | None => true end) (submachines st) = false) as ->.
  { destruct (existsb _ _) eqn:X; [|reflexivity]. apply existsb_exists in X as (b & Hb & Xb).
    pose proof (proj1 (forallb_forall _ _) K2 b Hb) as Wb. destruct d as [|d']; [discriminate|].
    pose proof Wb as Wb'. cbn [wf] in Wb'. destruct (start_of b) as [s1|]; [|discriminate]. apply andb_prop in Wb' as (Hb1 & _).
    rewrite (IH (S d') b s1 Wb Hb1) in Xb. discriminate. }
  cbn [orb]. destruct (terminal_type (type_of st) || is_end st) eqn:T; [reflexivity|]. cbn [orb] in K1d.
  destruct (targets st) as [|t ts] eqn:Et.
  - (* no target at all: then it is not a Choice with targets, and next_of is empty too: contradiction with K1d *)
    exfalso. cbn in K1d. rewrite andb_false_r in K1d. cbn in K1d.
    unfold targets in Et. destruct (next_of st); [discriminate|discriminate].
  - assert (existsb (illegal f m) (t :: ts) = false) as ->.
    { destruct (existsb _ _) eqn:X; [|reflexivity]. apply existsb_exists in X as (u & Hu & Xu).
      pose proof (proj1 (forallb_forall _ _) K1c u Hu) as Hsu.
      assert (wf (S d) m = true) as Wm by (cbn [wf]; rewrite S0, W0; exact W1).
      rewrite (IH (S d) m u Wm Hsu) in Xu. discriminate. }
    cbn [orb]. destruct (String.eqb (type_of st) "Choice") eqn:C; [reflexivity|]. cbn [negb andb]. cbn [andb orb] in K1d.
    destruct (next_of st); [discriminate|reflexivity].
Qed.

(* in particular from the start state *)
Corollary wf_runs : forall fuel d m s0, wf d m = true -> start_of m = Some s0 -> illegal fuel m s0 = false.
Proof.
  intros fuel d m s0 W S. apply (wf_never_illegal fuel d m s0 W). destruct d; [discriminate|]. cbn [wf] in W. rewrite S in W. apply andb_prop in W as (W0 & _). exact W0.
Qed.

(* and the converse direction on an example: a dangling Next is found *)
Example dangling_next_is_illegal :
  illegal 3 [("StartAt", JStr "A"); ("States", JObj [("A", JObj [("Type", JStr "Pass"); ("Next", JStr "Nowhere")])])] "A" = true.
Proof. reflexivity. Qed.
