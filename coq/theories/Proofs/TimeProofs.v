(* C08: offsets denote their true instant; waits never fire early. *)
From LSF Require Import PyStr Json PathSpec Paths Timestamp Deadline.
Open Scope string_scope.
Open Scope nat_scope.

(* ------------------------------------------------------------- deadlines *)
Lemma clamp0_spec z : clamp0 z = Z.max 0 z.
Proof. unfold clamp0. destruct (Z.ltb_spec 0 z); lia. Qed.

Lemma wait_never_early now started xt target :
  (target <= started + xt)%Z ->
  let '(t, _) := wait_fires now started xt target in
  (target <= t /\ now <= t /\ (now <= target -> t = target) /\ (target <= now -> t = now))%Z.
Proof.
  intros H. unfold wait_fires, t1_of, t2_of, delay_of. rewrite !clamp0_spec.
  destruct (Z.ltb_spec (Z.max 0 (started + xt - now)) (Z.max 0 (target - now))); lia.
Qed.

Lemma wait_completes_before_deadline now started xt target :
  (target < started + xt)%Z -> (now < started + xt)%Z ->
  snd (wait_fires now started xt target) = Completed.
Proof.
  intros H Hn. unfold wait_fires, t1_of, t2_of, delay_of. rewrite !clamp0_spec. cbn [snd].
  destruct (Z.ltb_spec (Z.max 0 (started + xt - now)) (Z.max 0 (target - now))); [lia|].
  destruct (Z.eqb_spec (Z.max 0 (target - now)) (Z.max 0 (started + xt - now))); [lia|reflexivity].
Qed.

Lemma wait_cut_by_execution_timeout now started xt target :
  (started + xt < target)%Z ->
  wait_fires now started xt target = (Z.max now (started + xt), ExecutionTimeout).
Proof.
  intros H. unfold wait_fires, t1_of, t2_of, delay_of. rewrite !clamp0_spec.
  destruct (Z.ltb_spec (Z.max 0 (started + xt - now)) (Z.max 0 (target - now))).
  - rewrite Z.eqb_refl. f_equal. lia.
  - assert (Z.max 0 (target - now) = Z.max 0 (started + xt - now)) as E by lia.
    rewrite E, Z.eqb_refl. f_equal. lia.
Qed.

Lemma task_times_out_at_deadline now started xt entered tsecs :
  (entered + tsecs < started + xt)%Z -> (now < started + xt)%Z ->
  task_deadline now started xt entered tsecs = (Z.max now (entered + tsecs), TaskTimeout).
Proof.
  intros H Hn. unfold task_deadline, t1_of, t2_of, delay_of. rewrite !clamp0_spec.
  destruct (Z.ltb_spec (Z.max 0 (started + xt - now)) (Z.max 0 (entered + tsecs - now))); [lia|].
  destruct (Z.eqb_spec (Z.max 0 (entered + tsecs - now)) (Z.max 0 (started + xt - now))); [lia|].
  f_equal. lia.
Qed.

Lemma task_cut_by_execution_timeout now started xt entered tsecs :
  (started + xt < entered + tsecs)%Z ->
  task_deadline now started xt entered tsecs = (Z.max now (started + xt), ExecTimeout).
Proof.
  intros H. unfold task_deadline, t1_of, t2_of, delay_of. rewrite !clamp0_spec.
  destruct (Z.ltb_spec (Z.max 0 (started + xt - now)) (Z.max 0 (entered + tsecs - now))).
  - rewrite Z.eqb_refl. f_equal. lia.
  - assert (Z.max 0 (entered + tsecs - now) = Z.max 0 (started + xt - now)) as E by lia.
    rewrite E, Z.eqb_refl. f_equal. lia.
Qed.

(* --------------------------------------------------------------- offsets *)
Definition two_digits (n : nat) : string :=
  String (ascii_of_nat (48 + n / 10)) (String (ascii_of_nat (48 + n mod 10)) "").

Definition offset_text (neg : bool) (h m : nat) : string :=
  String (if neg then "-" else "+")%char (two_digits h ++ String ":" (two_digits m)).

Definition signed_minutes (neg : bool) (h m : nat) : Z :=
  let d := Z.of_nat (h * 60 + m) in if neg then (- d)%Z else d.

(* every offset from -23:59 to +23:59, checked one by one inside Coq (2 x 24 x 60 texts) *)
Definition all_offsets_ok : bool :=
  forallb (fun neg => forallb (fun h => forallb (fun m =>
     match offset_minutes (offset_text neg h m) with
     | Some d => Z.eqb d (signed_minutes neg h m)
     | None => false
     end) (seq 0 60)%nat) (seq 0 24)%nat) [false; true].

Lemma all_offsets_ok_true : all_offsets_ok = true.
Proof. vm_compute. reflexivity. Qed.

Lemma offset_minutes_exact neg h m : h < 24 -> m < 60 ->
  offset_minutes (offset_text neg h m) = Some (signed_minutes neg h m).
Proof.
  intros Hh Hm. pose proof all_offsets_ok_true as H. unfold all_offsets_ok in H.
  rewrite forallb_forall in H. specialize (H neg (ltac:(destruct neg; cbn; tauto))).
  rewrite forallb_forall in H. specialize (H h (ltac:(apply in_seq; lia))).
  rewrite forallb_forall in H. specialize (H m (ltac:(apply in_seq; lia))).
  destruct (offset_minutes (offset_text neg h m)) as [d|]; [|discriminate].
  apply Z.eqb_eq in H. subst. reflexivity.
Qed.

(* string facts *)
Lemma str_take_app d o : str_take (String.length d) (d ++ o) = d.
Proof. induction d as [|a d IH]; cbn; [destruct o; reflexivity|]. rewrite IH. reflexivity. Qed.

Lemma str_drop_app d o : str_drop (String.length d) (d ++ o) = o.
Proof. induction d as [|a d IH]; cbn; [reflexivity|exact IH]. Qed.

Lemma last_char_app d a o : last_char (d ++ String a o) = last_char (String a o).
Proof.
  unfold last_char. rewrite length_append. cbn [String.length].
  replace (String.length d + S (String.length o) - 1) with (String.length d + String.length o) by lia.
  replace (S (String.length o) - 1) with (String.length o) by lia.
  induction d as [|x d IH]; cbn [append String.length Nat.add str_drop]; [reflexivity|exact IH].
Qed.

Lemma length_two_digits n : String.length (two_digits n) = 2.
Proof. reflexivity. Qed.

Lemma length_offset_text neg h m : String.length (offset_text neg h m) = 6.
Proof. reflexivity. Qed.

Lemma last_char_offset neg h m : last_char (offset_text neg h m) = Some (ascii_of_nat (48 + m mod 10)).
Proof. reflexivity. Qed.

Lemma digit_not_Z k : k < 10 -> ascii_eqb (ascii_of_nat (48 + k)) "Z" = false.
Proof.
  intros H. do 10 (destruct k as [|k]; [reflexivity|]). lia.
Qed.

(* The theorem: a date-time followed by any offset denotes the instant of the same
   date-time in Z notation minus the offset. *)
Theorem offset_exact_lemma d neg h m naive :
  h < 24 -> m < 60 ->
  rstrip (lstrip (d ++ offset_text neg h m)) = d ++ offset_text neg h m ->
  rstrip (lstrip (d ++ "Z")) = d ++ "Z" ->
  parse_rfc3339 (d ++ "Z") = TsOk naive ->
  parse_rfc3339 (d ++ offset_text neg h m) = TsOk (naive - signed_minutes neg h m * 60000000).
Proof.
  intros Hh Hm Hs1 Hs2 Hz.
  unfold parse_rfc3339 in *. rewrite Hs1. rewrite Hs2 in Hz.
  (* the Z form *)
  change (d ++ "Z") with (d ++ String "Z" "") in Hz.
  rewrite last_char_app in Hz. cbn [last_char String.length Nat.sub str_drop] in Hz.
  replace (ascii_eqb "Z" "Z") with true in Hz by reflexivity.
  rewrite length_append in Hz. cbn [String.length] in Hz.
  replace (String.length d + 1 - 1) with (String.length d) in Hz by lia.
  rewrite str_take_app in Hz.
  replace (offset_minutes "+00:00") with (Some 0%Z) in Hz by reflexivity.
  (* the offset form *)
  unfold offset_text at 1 2. rewrite last_char_app. fold (offset_text neg h m).
  rewrite last_char_offset. rewrite digit_not_Z by (apply Nat.mod_upper_bound; lia).
  rewrite length_append, length_offset_text.
  replace (String.length d + 6 - 6) with (String.length d) by lia.
  rewrite str_take_app, str_drop_app.
  rewrite (offset_minutes_exact neg h m Hh Hm).
  destruct (parse_naive (if has_char "." d then d else d ++ ".0")); try discriminate.
  inversion Hz; subst. f_equal. lia.
Qed.
