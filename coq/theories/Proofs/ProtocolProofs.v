(* Invariants of the protocol model (Model/Protocol.v), for every schedule, every
   decision of the data plane and any number of concurrent executions. *)
From Coq Require Import List Arith Bool Lia.
Import ListNotations.
From LSF Require Import TraceSpec Protocol ProtocolCheck.

(* ------------------------------------------------------------ per-step facts *)
(* the effects contain no acknowledgement, or exactly one and it is the last effect *)
Definition ack_last_b (l : list effect) : bool :=
  match acks_of l with
  | [] => true
  | [k] => match rev l with Ack k' :: _ => Nat.eqb k k' | _ => false end
  | _ => false
  end.

Lemma ack_then_nothing_none m l : acks_of l = [] -> ack_then_nothing m l = true.
Proof.
  induction l as [|f l IH]; cbn [ack_then_nothing acks_of]; intros H; [reflexivity|].
  destruct f; try (apply IH; exact H). discriminate.
Qed.

Lemma acks_app a b : acks_of (a ++ b) = acks_of a ++ acks_of b.
Proof. induction a as [|f a IH]; [reflexivity|]. destruct f; cbn; rewrite ?IH; reflexivity. Qed.

Lemma ack_then_nothing_tail m l k :
  acks_of l = [] -> ack_then_nothing m (l ++ [Ack k]) = true.
Proof.
  induction l as [|f l IH]; cbn [app ack_then_nothing acks_of]; intros H.
  - destruct (Nat.eqb k m); reflexivity.
  - destruct f; try (apply IH; exact H). discriminate.
Qed.

Lemma ack_last_sound l : ack_last_b l = true -> forall m, ack_then_nothing m l = true.
Proof.
  unfold ack_last_b. intros H m.
  destruct (acks_of l) as [|k [|k2 r]] eqn:E; [apply ack_then_nothing_none; exact E| |discriminate].
  destruct (rev l) as [|f r] eqn:R; [discriminate|]. destruct f; try discriminate.
  assert (l = rev r ++ [Ack m0]) as -> by (rewrite <- (rev_involutive l), R; reflexivity).
  apply ack_then_nothing_tail. rewrite acks_app in E. cbn in E.
  destruct (acks_of (rev r)) as [|a1 [|a2 ar]]; [reflexivity| |]; cbn in E; discriminate.
Qed.

Definition effs_of (r : option (world * list effect)) : option (list effect) := option_map snd r.

Lemma ack_last_finish_tail pre n e s d k :
  acks_of pre = [] -> ack_last_b (pre ++ finish_effects n e s d ++ [Ack k]) = true.
Proof.
  intros H. unfold ack_last_b. rewrite !acks_app, H, rev_app_distr, rev_app_distr.
  cbn [rev app]. replace (acks_of (finish_effects n e s d)) with (@nil mid) by (destruct d; reflexivity).
  cbn. apply Nat.eqb_refl.
Qed.

Lemma ack_last_noack l : acks_of l = [] -> ack_last_b l = true.
Proof. unfold ack_last_b. intros ->. reflexivity. Qed.

Lemma ack_last_prefix pre l : acks_of pre = [] -> ack_last_b l = true -> ack_last_b (pre ++ l) = true.
Proof.
  unfold ack_last_b. intros Hp H. rewrite acks_app, Hp, rev_app_distr. cbn [app].
  destruct (acks_of l) as [|k [|k2 r]]; try discriminate; [reflexivity|].
  destruct (rev l) as [|f r]; [discriminate|]. cbn [app]. exact H.
Qed.

Lemma enter_ack_last kind w e s d n w' effs :
  enter kind w e s d n = Some (w', effs) -> ack_last_b effs = true.
Proof.
  unfold enter. intros H.
  assert (acks_of (map (History (e_x e)) (if e_retry e then [] else [HStateEntered s])) = []) as Hpre by (destruct (e_retry e); reflexivity).
  destruct (kind s);
    try (destruct (id_ok w d n); [|discriminate]; apply (f_equal effs_of) in H; cbn [effs_of option_map snd] in H;
         inversion H; subst; apply ack_last_finish_tail; exact Hpre);
    (destruct (Nat.leb (next_tid w) n); [|discriminate]; apply (f_equal effs_of) in H; cbn [effs_of option_map snd] in H;
     inversion H; subst; apply ack_last_noack; rewrite acks_app, Hpre; reflexivity).
Qed.

Ltac fin := first [ reflexivity | (unfold ack_last_b; cbn; rewrite ?Nat.eqb_refl; reflexivity) ].
Ltac proj H := apply (f_equal effs_of) in H; cbn [effs_of option_map snd] in H; inversion H; subst.

(* C03: in every handler invocation the acknowledgement of an event comes after everything else
   that invocation hands over *)
Theorem step_ack_last kind s0 w i w' effs :
  step kind s0 w i = Some (w', effs) -> forall m, ack_then_nothing m effs = true.
Proof.
  intros H. apply ack_last_sound.
  destruct i as [mm d n|t d n|corr ok|corr d n|t]; cbn [step] in H.
  - destruct (find_event mm (queue w)) as [e|]; [|discriminate].
    destruct (e_state e) as [s|].
    + destruct (decision_ok (kind s) d); [|discriminate]. eapply enter_ack_last; exact H.
    + destruct (decision_ok (kind s0) d); [|discriminate].
      destruct (enter kind _ e s0 d n) as [[w2 effs2]|] eqn:E; [|discriminate].
      apply enter_ack_last in E. proj H.
      apply (ack_last_prefix [Record_ (e_x e) Running; History (e_x e) HExecutionStarted; Notify (e_x e) Running]); [reflexivity|exact E].
  - destruct (find_by_timer t (held w)) as [[e p]|]; [|discriminate]. destruct p as [t'|t'|t'].
    + destruct d; try (destruct (id_ok _ _ n); [|discriminate]; proj H; fin).
      destruct (Nat.leb _ n); [|discriminate]. proj H. fin.
    + destruct (decision_ok KWait d && id_ok _ d n); [|discriminate]. proj H.
      apply (ack_last_finish_tail []). reflexivity.
    + destruct d; try discriminate; (destruct (id_ok _ _ n); [|discriminate]); proj H; fin.
  - destruct (existsb _ _); [|discriminate]. proj H. fin.
  - destruct (replies w) as [|[c ok] rest]; [discriminate|].
    destruct (Nat.eqb c corr); [|discriminate].
    destruct (find_held corr _) as [[e [t'|t'|t']]|]; try (proj H; fin).
    destruct (_ && _); [|discriminate]. proj H.
    apply (ack_last_finish_tail [ClearTimer t'; History (e_x e) (if ok then HTaskSucceeded else HTaskFailed)]). reflexivity.
  - destruct (find_by_timer t (held w)) as [[e [t'|t'|t']]|]; try discriminate. proj H. fin.
Qed.

(* ------------------------------------------------------------ list utilities *)
Definition cntx (x : xid) (l : list event) : nat := length (filter (fun e => Nat.eqb (e_x e) x) l).
Definition hevents (w : world) : list event := map fst (held w).
Definition tokens (w : world) (x : xid) : nat := cntx x (queue w) + cntx x (hevents w).
Definition live_ids (w : world) : list mid := map e_id (queue w) ++ map e_id (hevents w).
Definition tids (w : world) : list tid := map (fun p => timer_of (snd p)) (held w).
Definition proj_x {A} (x : xid) (l : list (xid * A)) : list A := map snd (filter (fun p => Nat.eqb (fst p) x) l).

Lemma cntx_app x a b : cntx x (a ++ b) = cntx x a + cntx x b.
Proof. unfold cntx. rewrite filter_app, app_length. reflexivity. Qed.

Lemma proj_x_app {A} x (a b : list (xid * A)) : proj_x x (a ++ b) = proj_x x a ++ proj_x x b.
Proof. unfold proj_x. rewrite filter_app, map_app. reflexivity. Qed.

Lemma proj_x_map_same {A} x (l : list A) : proj_x x (map (fun h => (x, h)) l) = l.
Proof. unfold proj_x. induction l as [|a l IH]; cbn; [reflexivity|]. rewrite Nat.eqb_refl. cbn. rewrite IH. reflexivity. Qed.

Lemma proj_x_map_other {A} x y (l : list A) : x <> y -> proj_x y (map (fun h => (x, h)) l) = [].
Proof.
  intros N. unfold proj_x. induction l as [|a l IH]; cbn; [reflexivity|].
  destruct (Nat.eqb_spec x y); [contradiction|exact IH].
Qed.

Lemma find_event_spec m q e : find_event m q = Some e -> In e q /\ e_id e = m.
Proof.
  induction q as [|a q IH]; cbn; [discriminate|]. destruct (Nat.eqb_spec (e_id a) m).
  - intros H; inversion H; subst. split; [left; reflexivity|reflexivity].
  - intros H. destruct (IH H). split; [right; assumption|assumption].
Qed.

Lemma remove_event_ids m q : NoDup (map e_id q) -> In m (map e_id q) ->
  NoDup (map e_id (remove_event m q)) /\ ~ In m (map e_id (remove_event m q)) /\
  (forall k, In k (map e_id (remove_event m q)) -> In k (map e_id q)) /\
  (forall k, In k (map e_id q) -> k = m \/ In k (map e_id (remove_event m q))).
Proof.
  induction q as [|a q IH]; cbn [map remove_event In]; intros Hnd Hin; [contradiction|].
  inversion Hnd as [|? ? Ha Hq]; subst. destruct (Nat.eqb_spec (e_id a) m) as [E|N].
  - subst. repeat split; try assumption; intros k Hk; [right; exact Hk|]. destruct Hk; [left; symmetry; assumption|right; assumption].
  - destruct Hin as [Hin|Hin]; [contradiction|]. destruct (IH Hq Hin) as (H1 & H2 & H3 & H4).
    cbn [map]. repeat split.
    + constructor; [|exact H1]. intros F. apply Ha. apply H3. exact F.
    + intros [F|F]; [contradiction|]. apply H2. exact F.
    + intros k [Hk|Hk]; [left; exact Hk|right; apply H3; exact Hk].
    + intros k [Hk|Hk]; [right; left; exact Hk|]. destruct (H4 k Hk); [left; assumption|right; right; assumption].
Qed.

Lemma cntx_remove_event m q e x : NoDup (map e_id q) -> find_event m q = Some e ->
  cntx x q = cntx x (remove_event m q) + (if Nat.eqb (e_x e) x then 1 else 0).
Proof.
  induction q as [|a q IH]; cbn [find_event remove_event]; intros Hnd H; [discriminate|].
  inversion Hnd as [|? ? Ha Hq]; subst. destruct (Nat.eqb_spec (e_id a) m).
  - inversion H; subst. unfold cntx. cbn [filter]. destruct (Nat.eqb (e_x e) x); cbn; lia.
  - specialize (IH Hq H). unfold cntx in *. cbn [filter]. destruct (Nat.eqb (e_x a) x); cbn [length]; lia.
Qed.

Lemma get_set_same x st l : get_status x (set_status x st l) = Some st.
Proof.
  induction l as [|[y s] l IH]; cbn; [rewrite Nat.eqb_refl; reflexivity|].
  destruct (Nat.eqb_spec y x); cbn; [subst; rewrite Nat.eqb_refl; reflexivity|].
  destruct (Nat.eqb_spec y x); [contradiction|exact IH].
Qed.

Lemma get_set_other x y st l : x <> y -> get_status y (set_status x st l) = get_status y l.
Proof.
  intros N. induction l as [|[z s] l IH]; cbn.
  - destruct (Nat.eqb_spec x y); [contradiction|reflexivity].
  - destruct (Nat.eqb_spec z x); cbn.
    + subst. destruct (Nat.eqb_spec x y); [contradiction|reflexivity].
    + destruct (Nat.eqb z y); [reflexivity|exact IH].
Qed.

Lemma find_held_spec m h e p : find_held m h = Some (e, p) -> In (e, p) h /\ e_id e = m.
Proof.
  induction h as [|[a q] h IH]; cbn; [discriminate|]. destruct (Nat.eqb_spec (e_id a) m).
  - intros H; inversion H; subst. split; [left; reflexivity|reflexivity].
  - intros H. destruct (IH H). split; [right; assumption|assumption].
Qed.

Lemma find_by_timer_spec t h e p : find_by_timer t h = Some (e, p) -> In (e, p) h /\ timer_of p = t.
Proof.
  induction h as [|[a q] h IH]; cbn; [discriminate|]. destruct (Nat.eqb_spec (timer_of q) t).
  - intros H; inversion H; subst. split; [left; reflexivity|reflexivity].
  - intros H. destruct (IH H). split; [right; assumption|assumption].
Qed.

(* removing a held event whose id occurs exactly once *)
Lemma remove_held_facts m h e p : NoDup (map (fun q => e_id (fst q)) h) -> In (e, p) h -> e_id e = m ->
  let h' := remove_held m h in
  NoDup (map (fun q => e_id (fst q)) h') /\ ~ In m (map (fun q => e_id (fst q)) h') /\
  (forall q, In q h' -> In q h) /\
  (forall q, In q h -> q = (e, p) \/ In q h') /\
  (forall x, cntx x (map fst h) = cntx x (map fst h') + (if Nat.eqb (e_x e) x then 1 else 0)).
Proof.
  induction h as [|[a q] h IH]; cbn [map remove_held In fst]; intros Hnd Hin Hid; [contradiction|].
  inversion Hnd as [|? ? Ha Hh]; subst. destruct (Nat.eqb_spec (e_id a) (e_id e)) as [E|N].
  - assert ((a, q) = (e, p)) as Eq.
    { destruct Hin as [Hin|Hin]; [exact Hin|]. exfalso. apply Ha. rewrite E.
      apply (in_map (fun q0 => e_id (fst q0)) h (e, p)) in Hin. exact Hin. }
    inversion Eq; subst. repeat split; try assumption.
    + intros q0 Hq. right. exact Hq.
    + intros q0 [Hq|Hq]; [left; symmetry; exact Hq|right; exact Hq].
    + intros x. unfold cntx. cbn [map filter fst]. destruct (Nat.eqb (e_x e) x); cbn; lia.
  - destruct Hin as [Hin|Hin]; [inversion Hin; subst; contradiction|].
    destruct (IH Hh Hin eq_refl) as (H1 & H2 & H3 & H4 & H5). cbn [map fst]. repeat split.
    + constructor; [|exact H1]. intros F. apply Ha. clear -F H3.
      apply in_map_iff in F as (q0 & Hq0 & Hin0). rewrite <- Hq0. apply (in_map (fun q1 => e_id (fst q1))). apply H3. exact Hin0.
    + intros [F|F]; [contradiction|]. apply H2. exact F.
    + intros q0 [Hq|Hq]; [left; exact Hq|right; apply H3; exact Hq].
    + intros q0 [Hq|Hq]; [right; left; exact Hq|]. destruct (H4 q0 Hq); [left; assumption|right; right; assumption].
    + intros x. specialize (H5 x). unfold cntx in *. cbn [map filter fst]. destruct (Nat.eqb (e_x a) x); cbn [length]; lia.
Qed.

(* ----------------------------------------------------------------- invariant *)
Definition term_of (st : status) : hkind :=
  match st with Succeeded => HExecutionSucceeded | Failed => HExecutionFailed | Running => HExecutionStarted end.

Definition quiet_h (h : hkind) : bool := negb (is_terminal_h h) && negb (hkind_eqb h HExecutionStarted).
Definition quiet (l : list hkind) : Prop := forallb quiet_h l = true.

Definition xinv (w : world) (x : xid) : Prop :=
  match get_status x (statuses w) with
  | None =>
      proj_x x (notes w) = [] /\ proj_x x (hist w) = [] /\ cntx x (hevents w) = 0 /\ cntx x (queue w) <= 1 /\
      (forall e, In e (queue w) -> e_x e = x -> e_state e = None)
  | Some Running =>
      proj_x x (notes w) = [Running] /\ tokens w x = 1 /\
      (forall e, In e (queue w) -> e_x e = x -> e_state e <> None) /\
      exists r, proj_x x (hist w) = HExecutionStarted :: r /\ quiet r
  | Some st =>
      proj_x x (notes w) = [Running; st] /\ tokens w x = 0 /\
      exists r, proj_x x (hist w) = HExecutionStarted :: r ++ [term_of st] /\ quiet r
  end.

Definition held_ids (h : list (event * phase)) : list mid := map (fun q => e_id (fst q)) h.

Record Inv (w : world) : Prop := {
  i_nodup : NoDup (live_ids w);
  i_fresh : forall m, In m (live_ids w) -> m < next_id w;
  i_x : forall x, xinv w x;
  i_acked_nd : NoDup (acked w);
  i_acked : forall m, In m (acked w) -> m < next_id w /\ ~ In m (live_ids w)
}.

Lemma quiet_app a b : quiet a -> quiet b -> quiet (a ++ b).
Proof. unfold quiet. rewrite forallb_app. intros -> ->. reflexivity. Qed.

Lemma live_ids_eq w : live_ids w = map e_id (queue w) ++ held_ids (held w).
Proof. unfold live_ids, hevents, held_ids. rewrite map_map. reflexivity. Qed.

Lemma cntx_zero x l e : cntx x l = 0 -> In e l -> e_x e <> x.
Proof.
  unfold cntx. induction l as [|a l IH]; cbn [filter In]; intros H Hin; [contradiction|].
  destruct (Nat.eqb_spec (e_x a) x) as [E|E]; cbn [length] in H; [discriminate|].
  destruct Hin as [Hin|Hin]; [subst; exact E|apply IH; assumption].
Qed.

Lemma cntx_pos x l e : In e l -> e_x e = x -> 1 <= cntx x l.
Proof.
  intros Hin Hx. destruct (cntx x l) eqn:E; [|lia]. exfalso. exact (cntx_zero x l e E Hin Hx).
Qed.

Lemma remove_held_absent m h : ~ In m (held_ids h) -> remove_held m h = h.
Proof.
  unfold held_ids. induction h as [|[a q] h IH]; cbn [map remove_held In fst]; intros N; [reflexivity|].
  destruct (Nat.eqb_spec (e_id a) m) as [E|E]; [exfalso; apply N; left; exact E|]. f_equal. apply IH. intros F; apply N; right; exact F.
Qed.

(* frame: an execution whose records, notifications, history and tokens are untouched keeps its invariant *)
Lemma xinv_frame w w' y :
  get_status y (statuses w') = get_status y (statuses w) ->
  proj_x y (notes w') = proj_x y (notes w) -> proj_x y (hist w') = proj_x y (hist w) ->
  cntx y (queue w') = cntx y (queue w) -> cntx y (hevents w') = cntx y (hevents w) ->
  (forall e, In e (queue w') -> e_x e = y -> In e (queue w)) ->
  xinv w y -> xinv w' y.
Proof.
  intros Hs Hn Hh Hq Hhd Hin. unfold xinv, tokens. rewrite Hs, Hn, Hh, Hq, Hhd.
  destruct (get_status y (statuses w)) as [[| |]|]; intros H.
  - destruct H as (H1 & H2 & H3 & H4). repeat split; try assumption. intros e He Hx. apply H3; [apply Hin; assumption|assumption].
  - exact H.
  - exact H.
  - destruct H as (H1 & H2 & H3 & H4 & H5). repeat split; try assumption. intros e He Hx. apply H5; [apply Hin; assumption|assumption].
Qed.

(* the world in which the token e of execution x is being processed: e is in neither list any more *)
Record Processing (w : world) (e : event) : Prop := {
  p_nodup : NoDup (live_ids w);
  p_fresh : forall m, In m (live_ids w) -> m < next_id w;
  p_eid : e_id e < next_id w;
  p_enot : ~ In (e_id e) (live_ids w);
  p_others : forall y, y <> e_x e -> xinv w y;
  p_status : get_status (e_x e) (statuses w) = Some Running;
  p_notes : proj_x (e_x e) (notes w) = [Running];
  p_tokens : tokens w (e_x e) = 0;
  p_hist : exists r, proj_x (e_x e) (hist w) = HExecutionStarted :: r /\ quiet r;
  p_acked_nd : NoDup (acked w);
  p_acked : forall m, In m (acked w) -> m < next_id w /\ ~ In m (live_ids w) /\ m <> e_id e
}.

Lemma nodup_insert (a b : list nat) m : NoDup (a ++ b) -> ~ In m (a ++ b) -> NoDup (a ++ [m] ++ b).
Proof.
  intros H N. induction a as [|x a IH]; cbn in *.
  - constructor; assumption.
  - inversion H as [|? ? H2 H3]; subst. constructor.
    + intros F. apply in_app_iff in F as [F|F]; [apply H2; apply in_app_iff; left; exact F|].
      cbn in F. destruct F as [F|F]; [apply N; left; symmetry; exact F|apply H2; apply in_app_iff; right; exact F].
    + apply IH; [assumption|]. intros F. apply N. right. exact F.
Qed.

Lemma nodup_snoc (a : list nat) m : NoDup a -> ~ In m a -> NoDup (a ++ [m]).
Proof.
  intros H N. replace (a ++ [m]) with (a ++ [m] ++ []) by reflexivity. apply nodup_insert; rewrite app_nil_r; assumption.
Qed.

Ltac setw := match goal with |- Inv ?W => set (w' := W) end.

(* the processed token is replaced by a freshly published event of the same execution *)
Lemma pub_inv w e n s' b rq rp nt H' hs :
  Processing w e -> next_id w <= n -> quiet hs ->
  proj_x (e_x e) H' = proj_x (e_x e) (hist w) ++ hs ->
  (forall y, y <> e_x e -> proj_x y H' = proj_x y (hist w)) ->
  Inv {| queue := queue w ++ [fresh_event n (e_x e) s' b]; held := held w; requests := rq; replies := rp; next_id := S n; next_tid := nt;
         statuses := statuses w; notes := notes w; hist := H'; acked := acked w ++ [e_id e] |}.
Proof.
  intros P Hn Hq Hx Hy. destruct P as [Pnd Pfr Peid Penot Poth Pst Pnt Ptk Phi And Ack]. setw.
  assert (live_ids w' = map e_id (queue w) ++ [n] ++ map e_id (hevents w)) as L
    by (unfold live_ids, hevents; cbn; rewrite map_app, <- app_assoc; reflexivity).
  assert (~ In n (live_ids w)) as Nn by (intros F; apply Pfr in F; lia).
  assert (forall m, In m (live_ids w') -> m = n \/ In m (live_ids w)) as Lin.
  { intros m. rewrite L. unfold live_ids. rewrite !in_app_iff. cbn [In]. intuition. }
  unfold tokens in Ptk.
  constructor.
  - rewrite L. apply nodup_insert; assumption.
  - intros m Hm. cbn [next_id w']. destruct (Lin m Hm) as [->|Hm']; [lia|]. apply Pfr in Hm'. lia.
  - intros y. destruct (Nat.eq_dec y (e_x e)) as [->|Ny].
    + unfold xinv. cbn [statuses notes hist queue w']. rewrite Pst, Pnt. unfold tokens. cbn [queue w'].
      change (hevents w') with (hevents w). rewrite cntx_app.
      assert (cntx (e_x e) [fresh_event n (e_x e) s' b] = 1) as -> by (unfold cntx; cbn; rewrite Nat.eqb_refl; reflexivity).
      repeat split; [lia| |].
      * intros e0 He0 Hx0. apply in_app_iff in He0 as [He0|[<-|[]]]; [|cbn; discriminate].
        exfalso. apply (cntx_zero (e_x e) (queue w) e0); [lia|assumption|assumption].
      * destruct Phi as (r & Hr & Qr). exists (r ++ hs). rewrite Hx, Hr. split; [reflexivity|apply quiet_app; assumption].
    + apply (xinv_frame w); cbn [statuses notes hist queue w']; try reflexivity.
      * apply Hy. exact Ny.
      * rewrite cntx_app. unfold cntx at 2. cbn. destruct (Nat.eqb_spec (e_x e) y); [congruence|]. cbn. lia.
      * intros e0 He0 Hx0. apply in_app_iff in He0 as [He0|[<-|[]]]; [assumption|]. cbn in Hx0. congruence.
      * apply Poth. exact Ny.
  - cbn [acked w']. apply nodup_snoc; [assumption|]. intros F. apply Ack in F. destruct F as (_ & _ & F). apply F. reflexivity.
  - intros m Hm. cbn [acked w'] in Hm. cbn [next_id w']. apply in_app_iff in Hm as [Hm|[<-|[]]].
    + destruct (Ack m Hm) as (A1 & A2 & A3). split; [lia|]. intros F. destruct (Lin m F) as [->|F']; [lia|contradiction].
    + split; [lia|]. intros F. destruct (Lin _ F) as [E|F']; [lia|contradiction].
Qed.

(* the processed token is consumed and the execution becomes terminal *)
Lemma term_inv w e st rq rp nt H' hs :
  Processing w e -> st <> Running -> quiet hs ->
  proj_x (e_x e) H' = proj_x (e_x e) (hist w) ++ hs ++ [term_of st] ->
  (forall y, y <> e_x e -> proj_x y H' = proj_x y (hist w)) ->
  Inv {| queue := queue w; held := held w; requests := rq; replies := rp; next_id := next_id w; next_tid := nt;
         statuses := set_status (e_x e) st (statuses w); notes := notes w ++ [(e_x e, st)]; hist := H'; acked := acked w ++ [e_id e] |}.
Proof.
  intros P Hst Hq Hx Hy. destruct P as [Pnd Pfr Peid Penot Poth Pst Pnt Ptk Phi And Ack]. setw.
  assert (live_ids w' = live_ids w) as L by reflexivity.
  constructor.
  - rewrite L. assumption.
  - intros m Hm. rewrite L in Hm. apply Pfr. exact Hm.
  - intros y. destruct (Nat.eq_dec y (e_x e)) as [->|Ny].
    + unfold xinv. cbn [statuses notes hist queue w']. rewrite get_set_same, proj_x_app, Pnt.
      assert (proj_x (e_x e) [(e_x e, st)] = [st]) as -> by (unfold proj_x; cbn; rewrite Nat.eqb_refl; reflexivity).
      change (tokens w' (e_x e)) with (tokens w (e_x e)).
      destruct Phi as (r & Hr & Qr).
      destruct st; [contradiction| |]; (split; [reflexivity|split; [exact Ptk|]]); exists (r ++ hs); rewrite Hx, Hr;
        (split; [cbn [app]; rewrite app_assoc; reflexivity|apply quiet_app; assumption]).
    + apply (xinv_frame w); cbn [statuses notes hist queue w']; try reflexivity.
      * apply get_set_other. congruence.
      * rewrite proj_x_app. unfold proj_x at 2. cbn. destruct (Nat.eqb_spec (e_x e) y); [congruence|]. cbn. apply app_nil_r.
      * apply Hy. exact Ny.
      * intros e0 He0 _. exact He0.
      * apply Poth. exact Ny.
  - cbn [acked w']. apply nodup_snoc; [assumption|]. intros F. apply Ack in F. destruct F as (_ & _ & F). apply F. reflexivity.
  - intros m Hm. cbn [acked w'] in Hm. cbn [next_id w']. rewrite L. apply in_app_iff in Hm as [Hm|[<-|[]]].
    + destruct (Ack m Hm) as (A1 & A2 & A3). split; assumption.
    + split; assumption.
Qed.

(* the processed token is parked in `held` (Task delegate timer, Wait timer) *)
Lemma hold_inv w e p rq rp nt H' hs :
  Processing w e -> quiet hs ->
  proj_x (e_x e) H' = proj_x (e_x e) (hist w) ++ hs ->
  (forall y, y <> e_x e -> proj_x y H' = proj_x y (hist w)) ->
  Inv {| queue := queue w; held := held w ++ [(e, p)]; requests := rq; replies := rp; next_id := next_id w; next_tid := nt;
         statuses := statuses w; notes := notes w; hist := H'; acked := acked w |}.
Proof.
  intros P Hq Hx Hy. destruct P as [Pnd Pfr Peid Penot Poth Pst Pnt Ptk Phi And Ack]. setw.
  assert (live_ids w' = live_ids w ++ [e_id e]) as L
    by (unfold live_ids, hevents; cbn; rewrite !map_app, <- app_assoc; reflexivity).
  assert (hevents w' = hevents w ++ [e]) as Lh by (unfold hevents; cbn; rewrite map_app; reflexivity).
  unfold tokens in Ptk.
  constructor.
  - rewrite L. apply nodup_snoc; assumption.
  - intros m Hm. rewrite L in Hm. cbn [next_id w']. apply in_app_iff in Hm as [Hm|[<-|[]]]; [apply Pfr; exact Hm|exact Peid].
  - intros y. destruct (Nat.eq_dec y (e_x e)) as [->|Ny].
    + unfold xinv. cbn [statuses notes hist queue w']. rewrite Pst, Pnt. unfold tokens. rewrite Lh, cntx_app. cbn [queue w'].
      assert (cntx (e_x e) [e] = 1) as -> by (unfold cntx; cbn; rewrite Nat.eqb_refl; reflexivity).
      repeat split; [lia| |].
      * intros e0 He0 Hx0. exfalso. apply (cntx_zero (e_x e) (queue w) e0); [lia|assumption|assumption].
      * destruct Phi as (r & Hr & Qr). exists (r ++ hs). rewrite Hx, Hr. split; [reflexivity|apply quiet_app; assumption].
    + apply (xinv_frame w); cbn [statuses notes hist queue w']; try reflexivity.
      * apply Hy. exact Ny.
      * rewrite Lh, cntx_app. unfold cntx at 2. cbn. destruct (Nat.eqb_spec (e_x e) y); [congruence|]. cbn. lia.
      * intros e0 He0 _. exact He0.
      * apply Poth. exact Ny.
  - exact And.
  - intros m Hm. cbn [acked w'] in Hm. cbn [next_id w']. destruct (Ack m Hm) as (A1 & A2 & A3). split; [assumption|].
    rewrite L. intros F. apply in_app_iff in F as [F|[F|[]]]; [contradiction|congruence].
Qed.

Lemma quiet_cases : quiet [] /\ (forall s, quiet [HStateEntered s]) /\ (forall s, quiet [HStateExited s]) /\ quiet [HTaskScheduled] /\
  quiet [HTaskSucceeded] /\ quiet [HTaskFailed] /\ quiet [HTaskTimedOut].
Proof. unfold quiet. repeat split; intros; reflexivity. Qed.

Lemma quiet_entered (b : bool) s : quiet (if b then [] else [HStateEntered s]).
Proof. destruct b; reflexivity. Qed.

Ltac hist_facts x :=
  repeat rewrite proj_x_app; repeat rewrite proj_x_map_same;
  repeat (rewrite proj_x_map_other by congruence);
  repeat match goal with
  | |- context [proj_x x [(x, ?h)]] => change (proj_x x [(x, h)]) with (proj_x x (map (fun k => (x, k)) [h])); rewrite proj_x_map_same
  | |- context [proj_x x [(x, ?h); (x, ?h2)]] => change (proj_x x [(x, h); (x, h2)]) with (proj_x x (map (fun k => (x, k)) [h; h2])); rewrite proj_x_map_same
  end.

Lemma proj_x_other1 {A} x y (a : A) : x <> y -> proj_x y [(x, a)] = [].
Proof. intros N. apply (proj_x_map_other x y [a] N). Qed.
Lemma proj_x_other2 {A} x y (a b : A) : x <> y -> proj_x y [(x, a); (x, b)] = [].
Proof. intros N. apply (proj_x_map_other x y [a; b] N). Qed.
Lemma proj_x_same1 {A} x (a : A) : proj_x x [(x, a)] = [a].
Proof. apply (proj_x_map_same x [a]). Qed.
Lemma proj_x_same2 {A} x (a b : A) : proj_x x [(x, a); (x, b)] = [a; b].
Proof. apply (proj_x_map_same x [a; b]). Qed.

Lemma finished_inv w e s d n hs :
  Processing w e -> quiet hs -> id_ok w d n = true -> Inv (finished w e s d n hs).
Proof.
  intros P Hq Hid.
  assert (remove_held (e_id e) (held w) = held w) as R.
  { apply remove_held_absent. intros F. apply (p_enot _ _ P). rewrite live_ids_eq. apply in_app_iff. right. exact F. }
  unfold finished. rewrite R. unfold id_ok in Hid. destruct d as [s'| | |]; cbn in Hid.
  - apply Nat.leb_le in Hid. apply (pub_inv w e n s' false _ _ _ _ (hs ++ [HStateExited s])); try assumption.
    + apply quiet_app; [assumption|reflexivity].
    + rewrite !proj_x_app, proj_x_map_same, proj_x_same1, app_assoc. reflexivity.
    + intros y Ny. rewrite !proj_x_app, proj_x_map_other, proj_x_other1 by congruence. rewrite !app_nil_r. reflexivity.
  - apply (term_inv w e Succeeded _ _ _ _ (hs ++ [HStateExited s])); try assumption.
    + discriminate.
    + apply quiet_app; [assumption|reflexivity].
    + rewrite !proj_x_app, proj_x_map_same, proj_x_same2. cbn [term_of]. rewrite <- !app_assoc. reflexivity.
    + intros y Ny. rewrite !proj_x_app, proj_x_map_other, proj_x_other2 by congruence. rewrite !app_nil_r. reflexivity.
  - apply (term_inv w e Failed _ _ _ _ hs); try assumption.
    + discriminate.
    + rewrite !proj_x_app, proj_x_map_same, proj_x_same1. cbn [term_of]. rewrite <- !app_assoc. reflexivity.
    + intros y Ny. rewrite !proj_x_app, proj_x_map_other, proj_x_other1 by congruence. rewrite !app_nil_r. reflexivity.
  - apply Nat.leb_le in Hid. apply (pub_inv w e n s true _ _ _ _ hs); try assumption.
    + rewrite !proj_x_app, proj_x_map_same. reflexivity.
    + intros y Ny. rewrite !proj_x_app, proj_x_map_other by congruence. rewrite !app_nil_r. reflexivity.
Qed.

Lemma enter_inv kind w e s d n w' effs :
  Processing w e -> enter kind w e s d n = Some (w', effs) -> Inv w'.
Proof.
  intros P H. unfold enter in H.
  destruct (kind s);
    try (destruct (id_ok w d n) eqn:Hid; [|discriminate]; inversion H; subst; apply finished_inv; [assumption|apply quiet_entered|assumption]);
    (destruct (Nat.leb (next_tid w) n); [|discriminate]; inversion H; subst; unfold with_held;
     apply (hold_inv w e _ _ _ _ _ (if e_retry e then [] else [HStateEntered s])); [assumption|apply quiet_entered| |]).
  - rewrite proj_x_app, proj_x_map_same. reflexivity.
  - intros y Ny. rewrite proj_x_app, proj_x_map_other by congruence. apply app_nil_r.
  - rewrite proj_x_app, proj_x_map_same. reflexivity.
  - intros y Ny. rewrite proj_x_app, proj_x_map_other by congruence. apply app_nil_r.
Qed.

Lemma nodup_app_l (a b : list nat) : NoDup (a ++ b) -> NoDup a.
Proof. induction a as [|x a IH]; cbn; intros H; [constructor|]. inversion H; subst. constructor; [intros F; apply H2; apply in_app_iff; left; exact F|apply IH; assumption]. Qed.
Lemma nodup_app_r (a b : list nat) : NoDup (a ++ b) -> NoDup b.
Proof. induction a as [|x a IH]; cbn; intros H; [exact H|]. inversion H; subst. apply IH; assumption. Qed.
Lemma nodup_app_disj (a b : list nat) m : NoDup (a ++ b) -> In m a -> In m b -> False.
Proof.
  induction a as [|x a IH]; cbn; intros H Ha Hb; [contradiction|]. inversion H; subst.
  destruct Ha as [->|Ha]; [apply H2; apply in_app_iff; right; exact Hb|apply IH; assumption].
Qed.
Lemma nodup_app_sub (a b a' b' : list nat) : NoDup (a ++ b) -> NoDup a' -> NoDup b' ->
  (forall m, In m a' -> In m a) -> (forall m, In m b' -> In m b) -> NoDup (a' ++ b').
Proof.
  intros H Ha Hb Sa Sb. induction a' as [|x a' IH]; cbn; [exact Hb|]. inversion Ha; subst. constructor.
  - intros F. apply in_app_iff in F as [F|F]; [contradiction|]. apply (nodup_app_disj a b x H); [apply Sa; left; reflexivity|apply Sb; exact F].
  - apply IH; [assumption|]. intros m Hm. apply Sa. right. exact Hm.
Qed.

(* the world before the token e, currently held, is processed *)
Definition wpre (w : world) (e : event) : world := with_held w (remove_held (e_id e) (held w)) (next_tid w) (hist w).

Lemma in_hevents w e p : In (e, p) (held w) -> In e (hevents w).
Proof. intros H. unfold hevents. apply (in_map fst) in H. exact H. Qed.

Lemma processing_held w e p : Inv w -> In (e, p) (held w) -> Processing (wpre w e) e.
Proof.
  intros I Hin. destruct I as [Ind Ifr Ix And Ack].
  pose proof Ind as Ind'. rewrite live_ids_eq in Ind'.
  destruct (remove_held_facts (e_id e) (held w) e p (nodup_app_r _ _ Ind') Hin eq_refl) as (H1 & H2 & H3 & H4 & H5).
  fold (held_ids (remove_held (e_id e) (held w))) in H1, H2.
  assert (In (e_id e) (held_ids (held w))) as Hid by (apply (in_map (fun q => e_id (fst q))) in Hin; exact Hin).
  assert (In (e_id e) (live_ids w)) as Hlive by (rewrite live_ids_eq; apply in_app_iff; right; exact Hid).
  assert (forall m, In m (held_ids (remove_held (e_id e) (held w))) -> In m (held_ids (held w))) as Sub.
  { intros m Hm. unfold held_ids in *. apply in_map_iff in Hm as (q & <- & Hq). apply (in_map (fun q => e_id (fst q))). apply H3. exact Hq. }
  assert (forall m, In m (live_ids (wpre w e)) -> In m (live_ids w)) as Lsub.
  { intros m. rewrite !live_ids_eq. cbn [wpre with_held queue held]. rewrite !in_app_iff. intros [Hm|Hm]; [left; exact Hm|right; apply Sub; exact Hm]. }
  assert (forall y, cntx y (hevents w) = cntx y (hevents (wpre w e)) + (if Nat.eqb (e_x e) y then 1 else 0)) as Hc by exact H5.
  pose proof (Ix (e_x e)) as Xe. unfold xinv, tokens in Xe. pose proof (Hc (e_x e)) as Hce. rewrite Nat.eqb_refl in Hce.
  destruct (get_status (e_x e) (statuses w)) as [[| |]|] eqn:Est.
  2,3: exfalso; destruct Xe as (_ & Xt & _); lia.
  2: exfalso; destruct Xe as (_ & _ & Xt & _); lia.
  destruct Xe as (Xn & Xt & Xq & Xh).
  constructor.
  - rewrite live_ids_eq. cbn [wpre with_held queue held].
    apply (nodup_app_sub (map e_id (queue w)) (held_ids (held w))); try assumption; [apply (nodup_app_l _ _ Ind')|intros m Hm; exact Hm].
  - intros m Hm. apply Ifr. apply Lsub. exact Hm.
  - apply Ifr. exact Hlive.
  - rewrite live_ids_eq. cbn [wpre with_held queue held]. intros F. apply in_app_iff in F as [F|F]; [|contradiction].
    apply (nodup_app_disj _ _ _ Ind' F Hid).
  - intros y Ny. apply (xinv_frame w); try reflexivity.
    + specialize (Hc y). destruct (Nat.eqb_spec (e_x e) y); [congruence|]. lia.
    + intros e0 He0 _. exact He0.
    + apply Ix.
  - exact Est.
  - exact Xn.
  - unfold tokens. cbn [wpre with_held queue]. change (queue w) with (queue w) in Xt. lia.
  - exact Xh.
  - exact And.
  - intros m Hm. destruct (Ack m Hm) as (A1 & A2). repeat split; [exact A1| |congruence]. intros F. apply A2. apply Lsub. exact F.
Qed.

Lemma finished_wpre w e s d n hs : ~ In (e_id e) (held_ids (remove_held (e_id e) (held w))) ->
  finished w e s d n hs = finished (wpre w e) e s d n hs.
Proof.
  intros N. unfold finished, wpre, with_held. cbn [queue held requests replies next_id next_tid statuses notes hist acked].
  rewrite (remove_held_absent _ _ N). reflexivity.
Qed.

Lemma finished_held_inv w e p s d n hs :
  Inv w -> In (e, p) (held w) -> quiet hs -> id_ok w d n = true -> Inv (finished w e s d n hs).
Proof.
  intros I Hin Hq Hid. pose proof (processing_held w e p I Hin) as P.
  rewrite finished_wpre.
  - apply finished_inv; assumption.
  - intros F. apply (p_enot _ _ P). rewrite live_ids_eq. apply in_app_iff. right. exact F.
Qed.

Lemma processing_queue w m e :
  Inv w -> find_event m (queue w) = Some e ->
  let w0 := with_queue w (remove_event m (queue w)) in
  match e_state e with
  | Some _ => Processing w0 e
  | None => Processing (started w0 (e_x e)) e
  end.
Proof.
  intros I Hf w0. destruct I as [Ind Ifr Ix And Ack].
  destruct (find_event_spec _ _ _ Hf) as (Hin & Hm). subst m.
  pose proof Ind as Ind'. unfold live_ids in Ind'.
  assert (In (e_id e) (map e_id (queue w))) as Hid by (apply in_map; exact Hin).
  destruct (remove_event_ids (e_id e) (queue w) (nodup_app_l _ _ Ind') Hid) as (H1 & H2 & H3 & H4).
  assert (In (e_id e) (live_ids w)) as Hlive by (apply in_app_iff; left; exact Hid).
  assert (forall k, In k (live_ids w0) -> In k (live_ids w)) as Lsub.
  { intros k. unfold live_ids. cbn [w0 with_queue queue]. change (hevents w0) with (hevents w). rewrite !in_app_iff.
    intros [Hk|Hk]; [left; apply H3; exact Hk|right; exact Hk]. }
  assert (forall y, cntx y (queue w) = cntx y (queue w0) + (if Nat.eqb (e_x e) y then 1 else 0)) as Hc
    by (intros y; apply cntx_remove_event; [apply (nodup_app_l _ _ Ind')|exact Hf]).
  assert (forall e0, In e0 (queue w0) -> In e0 (queue w)) as Qsub.
  { cbn [w0 with_queue queue]. clear. induction (queue w) as [|a q IH]; cbn; [tauto|].
    destruct (Nat.eqb (e_id a) (e_id e)); intros e0 H; [right; exact H|]. destruct H as [H|H]; [left; exact H|right; apply IH; exact H]. }
  assert (NoDup (live_ids w0)) as Nd0.
  { unfold live_ids. cbn [w0 with_queue queue]. change (hevents w0) with (hevents w).
    apply (nodup_app_sub (map e_id (queue w)) (map e_id (hevents w))); try assumption; [apply (nodup_app_r _ _ Ind')|intros k Hk; exact Hk]. }
  assert (~ In (e_id e) (live_ids w0)) as Enot.
  { unfold live_ids. cbn [w0 with_queue queue]. change (hevents w0) with (hevents w). intros F. apply in_app_iff in F as [F|F]; [contradiction|].
    apply (nodup_app_disj _ _ _ Ind' Hid F). }
  assert (forall y, y <> e_x e -> xinv w0 y) as Oth.
  { intros y Ny. apply (xinv_frame w); try reflexivity.
    - specialize (Hc y). destruct (Nat.eqb_spec (e_x e) y); [congruence|]. lia.
    - intros e0 He0 _. apply Qsub. exact He0.
    - apply Ix. }
  pose proof (Ix (e_x e)) as Xe. unfold xinv, tokens in Xe. pose proof (Hc (e_x e)) as Hce. rewrite Nat.eqb_refl in Hce.
  assert (1 <= cntx (e_x e) (queue w)) as Hpos by lia.
  destruct (e_state e) as [s|] eqn:Es.
  - destruct (get_status (e_x e) (statuses w)) as [[| |]|] eqn:Est.
    2,3: exfalso; destruct Xe as (_ & Xt & _); lia.
    2: exfalso; destruct Xe as (_ & _ & _ & _ & Xq); rewrite (Xq e Hin eq_refl) in Es; discriminate.
    destruct Xe as (Xn & Xt & Xq & Xh).
    constructor; try assumption.
    + intros k Hk. apply Ifr. apply Lsub. exact Hk.
    + apply Ifr. exact Hlive.
    + unfold tokens. change (hevents w0) with (hevents w). lia.
    + intros k Hk. destruct (Ack k Hk) as (A1 & A2). repeat split; [exact A1| |congruence]. intros F. apply A2. apply Lsub. exact F.
  - destruct (get_status (e_x e) (statuses w)) as [[| |]|] eqn:Est.
    1: exfalso; destruct Xe as (_ & _ & Xq & _); apply (Xq e Hin eq_refl); exact Es.
    1,2: exfalso; destruct Xe as (_ & Xt & _); lia.
    destruct Xe as (Xn & Xh & Xhd & Xq1 & Xq).
    constructor.
    + exact Nd0.
    + intros k Hk. apply Ifr. apply Lsub. exact Hk.
    + apply Ifr. exact Hlive.
    + exact Enot.
    + intros y Ny. apply (xinv_frame w0); cbn [started statuses notes hist queue]; try reflexivity.
      * apply get_set_other. congruence.
      * rewrite proj_x_app, proj_x_other1 by congruence. apply app_nil_r.
      * rewrite proj_x_app, proj_x_other1 by congruence. apply app_nil_r.
      * intros e0 He0 _. exact He0.
      * apply Oth. exact Ny.
    + cbn [started statuses]. apply get_set_same.
    + cbn [started notes]. rewrite proj_x_app, proj_x_same1. change (notes w0) with (notes w). rewrite Xn. reflexivity.
    + unfold tokens. cbn [started queue]. change (hevents (started w0 (e_x e))) with (hevents w). lia.
    + exists []. cbn [started hist]. rewrite proj_x_app, proj_x_same1. change (hist w0) with (hist w). rewrite Xh. split; reflexivity.
    + exact And.
    + intros k Hk. destruct (Ack k Hk) as (A1 & A2). repeat split; [exact A1| |congruence]. intros F. apply A2. apply Lsub. exact F.
Qed.

(* Inv only reads these components *)
Lemma inv_ext w w' :
  queue w' = queue w -> hevents w' = hevents w -> next_id w' = next_id w -> statuses w' = statuses w ->
  notes w' = notes w -> hist w' = hist w -> acked w' = acked w -> Inv w -> Inv w'.
Proof.
  intros Hq Hh Hn Hs Hno Hhi Ha I. destruct I as [Ind Ifr Ix And Ack].
  assert (live_ids w' = live_ids w) as L by (unfold live_ids; rewrite Hq, Hh; reflexivity).
  constructor.
  - rewrite L. exact Ind.
  - rewrite L, Hn. exact Ifr.
  - intros x. specialize (Ix x). unfold xinv, tokens in *. rewrite Hs, Hno, Hhi, Hq, Hh. exact Ix.
  - rewrite Ha. exact And.
  - rewrite Ha, Hn, L. exact Ack.
Qed.

Lemma set_phase_fst m p h : map fst (set_phase m p h) = map fst h.
Proof. induction h as [|[a q] h IH]; cbn; [reflexivity|]. destruct (Nat.eqb (e_id a) m); cbn; [reflexivity|rewrite IH; reflexivity]. Qed.

(* a running execution logs quiet history events; nothing else changes *)
Lemma log_inv w w' x hs :
  queue w' = queue w -> hevents w' = hevents w -> next_id w' = next_id w -> statuses w' = statuses w ->
  notes w' = notes w -> hist w' = hist w ++ map (fun h => (x, h)) hs -> acked w' = acked w ->
  get_status x (statuses w) = Some Running -> quiet hs -> Inv w -> Inv w'.
Proof.
  intros Hq Hh Hn Hs Hno Hhi Ha Hst Qs I. destruct I as [Ind Ifr Ix And Ack].
  assert (live_ids w' = live_ids w) as L by (unfold live_ids; rewrite Hq, Hh; reflexivity).
  constructor.
  - rewrite L. exact Ind.
  - rewrite L, Hn. exact Ifr.
  - intros y. specialize (Ix y). unfold xinv, tokens in *. rewrite Hs, Hno, Hhi, Hq, Hh. destruct (Nat.eq_dec x y) as [<-|Ny].
    + rewrite Hst in *. destruct Ix as (X1 & X2 & X3 & r & Hr & Qr). repeat split; try assumption.
      exists (r ++ hs). rewrite proj_x_app, proj_x_map_same, Hr. split; [reflexivity|apply quiet_app; assumption].
    + rewrite proj_x_app, proj_x_map_other, app_nil_r by exact Ny. exact Ix.
  - rewrite Ha. exact And.
  - rewrite Ha, Hn, L. exact Ack.
Qed.

Lemma held_running w e p : Inv w -> In (e, p) (held w) -> get_status (e_x e) (statuses w) = Some Running.
Proof. intros I Hin. exact (p_status _ _ (processing_held w e p I Hin)). Qed.

Lemma some_fst {A B} (a a' : A) (b b' : B) : Some (a, b) = Some (a', b') -> a' = a.
Proof. intros H. inversion H. reflexivity. Qed.
Ltac projw H := apply some_fst in H; subst.

Theorem step_inv kind s0 w i w' effs : Inv w -> step kind s0 w i = Some (w', effs) -> Inv w'.
Proof.
  intros I H. destruct i as [m d n|t d n|corr ok|corr d n|t]; cbn [step] in H.
  - destruct (find_event m (queue w)) as [e|] eqn:Hf; [|discriminate].
    pose proof (processing_queue w m e I Hf) as P. cbv zeta in P.
    destruct (e_state e) as [s|].
    + destruct (decision_ok _ _); [|discriminate]. eapply enter_inv; eassumption.
    + destruct (decision_ok _ _); [|discriminate].
      destruct (enter kind _ e s0 d n) as [[w2 effs2]|] eqn:He; [|discriminate]. projw H.
      eapply enter_inv; eassumption.
  - destruct (find_by_timer t (held w)) as [[e p]|] eqn:Hf; [|discriminate].
    destruct (find_by_timer_spec _ _ _ _ Hf) as (Hin & _).
    destruct p as [t'|t'|t'].
    + destruct d as [s'| | |];
        try (destruct (id_ok w _ n) eqn:Hid; [|discriminate]; projw H;
             apply (finished_held_inv w e _ _ _ _ _ I Hin); [reflexivity|exact Hid]).
      destruct (Nat.leb (next_tid w) n); [|discriminate]. projw H.
      apply (log_inv w _ (e_x e) [HTaskScheduled]); try reflexivity; try assumption.
      * unfold hevents. cbn [held]. apply set_phase_fst.
      * eapply held_running; eassumption.
    + destruct (decision_ok KWait d && id_ok w d n) eqn:Hc; [|discriminate]. apply andb_prop in Hc as (_ & Hid). projw H.
      apply (finished_held_inv w e _ _ _ _ _ I Hin); [reflexivity|exact Hid].
    + destruct d as [s'| | |]; try discriminate;
        (destruct (id_ok w _ n) eqn:Hid; [|discriminate]; projw H;
         apply (finished_held_inv w e _ _ _ _ _ I Hin); [reflexivity|exact Hid]).
  - destruct (existsb _ _); [|discriminate]. projw H. apply (inv_ext w); try reflexivity. exact I.
  - destruct (replies w) as [|[c ok] rest] eqn:Hr; [discriminate|]. destruct (Nat.eqb c corr); [|discriminate].
    set (w0 := {| queue := queue w; held := held w; requests := requests w; replies := rest; next_id := next_id w; next_tid := next_tid w;
                  statuses := statuses w; notes := notes w; hist := hist w; acked := acked w |}) in *.
    assert (Inv w0) as I0 by (apply (inv_ext w); try reflexivity; exact I).
    destruct (find_held corr (held w)) as [[e [t'|t'|t']]|] eqn:Hf; try (projw H; exact I0).
    destruct (find_held_spec _ _ _ _ Hf) as (Hin & _).
    destruct (_ && id_ok w d n) eqn:Hc; [|discriminate]. apply andb_prop in Hc as (_ & Hid). projw H.
    apply (finished_held_inv w0 e (PPending t')); [exact I0|exact Hin|destruct ok; reflexivity|exact Hid].
  - destruct (find_by_timer t (held w)) as [[e [t'|t'|t']]|] eqn:Hf; try discriminate.
    destruct (find_by_timer_spec _ _ _ _ Hf) as (Hin & _). projw H.
    apply (finished_held_inv w e (PPending t')); [exact I|exact Hin|reflexivity|reflexivity].
Qed.

(* ------------------------------------------------------- effects and the world *)
Fixpoint enotes (l : list effect) : list (xid * status) :=
  match l with [] => [] | Notify x st :: r => (x, st) :: enotes r | _ :: r => enotes r end.
Fixpoint ehist (l : list effect) : list (xid * hkind) :=
  match l with [] => [] | History x h :: r => (x, h) :: ehist r | _ :: r => ehist r end.

Lemma enotes_app a b : enotes (a ++ b) = enotes a ++ enotes b.
Proof. induction a as [|[] a IH]; cbn; rewrite ?IH; reflexivity. Qed.
Lemma ehist_app a b : ehist (a ++ b) = ehist a ++ ehist b.
Proof. induction a as [|[] a IH]; cbn; rewrite ?IH; reflexivity. Qed.
Lemma ehist_map x l : ehist (map (History x) l) = map (fun h => (x, h)) l.
Proof. induction l as [|a l IH]; cbn; rewrite ?IH; reflexivity. Qed.
Lemma enotes_map x l : enotes (map (History x) l) = [].
Proof. induction l as [|a l IH]; cbn; rewrite ?IH; reflexivity. Qed.
Lemma acks_map x l : acks_of (map (History x) l) = [].
Proof. induction l as [|a l IH]; cbn; rewrite ?IH; reflexivity. Qed.

Lemma notes_of_proj x l : notes_of x l = proj_x x (enotes l).
Proof.
  unfold proj_x. induction l as [|[] l IH]; cbn; try exact IH; [reflexivity|].
  rewrite (Nat.eqb_sym x0 x). destruct (Nat.eqb x x0); cbn; rewrite IH; reflexivity.
Qed.
Lemma hist_of_proj x l : hist_of x l = proj_x x (ehist l).
Proof.
  unfold proj_x. induction l as [|[] l IH]; cbn; try exact IH; [reflexivity|].
  rewrite (Nat.eqb_sym x0 x). destruct (Nat.eqb x x0); cbn; rewrite IH; reflexivity.
Qed.

Definition synced (w w' : world) (effs : list effect) : Prop :=
  notes w' = notes w ++ enotes effs /\ hist w' = hist w ++ ehist effs /\ acked w' = acked w ++ acks_of effs.

Lemma finished_sync w e s d n hs pre :
  enotes pre = [] -> ehist pre = map (fun h => (e_x e, h)) hs -> acks_of pre = [] ->
  synced w (finished w e s d n hs) (pre ++ finish_effects n e s d ++ [Ack (e_id e)]).
Proof.
  intros P1 P2 P3. unfold synced. rewrite !enotes_app, !ehist_app, !acks_app, P1, P2, P3.
  destruct d; cbn; rewrite ?app_nil_r, <- ?app_assoc; repeat split; reflexivity.
Qed.

Lemma some_pair {A B} (a a' : A) (b b' : B) : Some (a, b) = Some (a', b') -> a' = a /\ b' = b.
Proof. intros H. inversion H. split; reflexivity. Qed.
Ltac projp H := apply some_pair in H; destruct H; subst.

Lemma enter_sync kind w e s d n w' effs : enter kind w e s d n = Some (w', effs) -> synced w w' effs.
Proof.
  unfold enter. intros H.
  destruct (kind s);
    try (destruct (id_ok w d n); [|discriminate]; projp H; apply finished_sync; [apply enotes_map|apply ehist_map|apply acks_map]);
    (destruct (Nat.leb (next_tid w) n); [|discriminate]; projp H; unfold synced, with_held; cbn [notes hist acked];
     rewrite enotes_app, ehist_app, acks_app, enotes_map, ehist_map, acks_map; cbn; rewrite !app_nil_r; repeat split; reflexivity).
Qed.

Theorem step_sync kind s0 w i w' effs : step kind s0 w i = Some (w', effs) -> synced w w' effs.
Proof.
  intros H. destruct i as [m d n|t d n|corr ok|corr d n|t]; cbn [step] in H.
  - destruct (find_event m (queue w)) as [e|]; [|discriminate]. destruct (e_state e) as [s|].
    + destruct (decision_ok _ _); [|discriminate]. apply enter_sync in H. exact H.
    + destruct (decision_ok _ _); [|discriminate]. destruct (enter kind _ e s0 d n) as [[w2 effs2]|] eqn:He; [|discriminate].
      projp H. apply enter_sync in He. destruct He as (E1 & E2 & E3). unfold synced. cbn [started with_queue notes hist acked] in *.
      rewrite E1, E2, E3. cbn. rewrite <- !app_assoc. repeat split; reflexivity.
  - destruct (find_by_timer t (held w)) as [[e p]|]; [|discriminate]. destruct p as [t'|t'|t'].
    + destruct d as [s'| | |];
        try (destruct (id_ok w _ n); [|discriminate]; projp H; apply (finished_sync w e _ _ _ [] []); reflexivity).
      destruct (Nat.leb (next_tid w) n); [|discriminate]. projp H. unfold synced. cbn. rewrite !app_nil_r. repeat split; reflexivity.
    + destruct (_ && _); [|discriminate]. projp H. apply (finished_sync w e _ _ _ [] []); reflexivity.
    + destruct d as [s'| | |]; try discriminate;
        (destruct (id_ok w _ n); [|discriminate]; projp H;
         apply (finished_sync w e _ _ _ [HTaskTimedOut] [History (e_x e) HTaskTimedOut]); reflexivity).
  - destruct (existsb _ _); [|discriminate]. projp H. unfold synced. cbn. rewrite !app_nil_r. repeat split; reflexivity.
  - destruct (replies w) as [|[c ok] rest]; [discriminate|]. destruct (Nat.eqb c corr); [|discriminate].
    destruct (find_held corr (held w)) as [[e [t'|t'|t']]|];
      try (projp H; unfold synced; cbn; rewrite !app_nil_r; repeat split; reflexivity).
    destruct (_ && _); [|discriminate]. projp H.
    match goal with |- synced _ (finished ?W0 _ _ _ _ _) _ =>
      apply (finished_sync W0 e _ _ _ [if ok then HTaskSucceeded else HTaskFailed]
               [ClearTimer t'; History (e_x e) (if ok then HTaskSucceeded else HTaskFailed)]); reflexivity end.
  - destruct (find_by_timer t (held w)) as [[e [t'|t'|t']]|]; try discriminate. projp H.
    apply (finished_sync w e _ _ _ [] []); reflexivity.
Qed.

(* -------------------------------------------------------------------- runs *)
Fixpoint run (kind : sname -> skind) (s0 : sname) (w : world) (l : list input) : option (world * list effect) :=
  match l with
  | [] => Some (w, [])
  | i :: r =>
      match step kind s0 w i with
      | None => None
      | Some (w1, e1) => match run kind s0 w1 r with None => None | Some (w2, e2) => Some (w2, e1 ++ e2) end
      end
  end.

Lemma run_inv kind s0 l : forall w w' effs, Inv w -> run kind s0 w l = Some (w', effs) -> Inv w' /\ synced w w' effs.
Proof.
  induction l as [|i l IH]; cbn [run]; intros w w' effs I H.
  - projp H. split; [exact I|]. unfold synced. cbn. rewrite !app_nil_r. repeat split; reflexivity.
  - destruct (step kind s0 w i) as [[w1 e1]|] eqn:Hs; [|discriminate].
    destruct (run kind s0 w1 l) as [[w2 e2]|] eqn:Hr; [|discriminate]. projp H.
    pose proof (step_inv _ _ _ _ _ _ I Hs) as I1. destruct (IH _ _ _ I1 Hr) as (I2 & S2). split; [exact I2|].
    destruct (step_sync _ _ _ _ _ _ Hs) as (A1 & A2 & A3). destruct S2 as (B1 & B2 & B3).
    unfold synced. rewrite enotes_app, ehist_app, acks_app, B1, B2, B3, A1, A2, A3, <- !app_assoc. repeat split; reflexivity.
Qed.

Definition starts_ok (starts : list event) (first_id : nat) : Prop :=
  NoDup (map e_id starts) /\ NoDup (map e_x starts) /\ forall e, In e starts -> e_state e = None /\ e_id e < first_id.

Lemma cntx_nodup x l : NoDup (map e_x l) -> cntx x l <= 1.
Proof.
  unfold cntx. induction l as [|a l IH]; cbn [map filter]; intros H; [cbn; lia|]. inversion H as [|? ? Ha Hl]; subst.
  destruct (Nat.eqb_spec (e_x a) x) as [E|E]; [|apply IH; exact Hl]. cbn [length].
  assert (length (filter (fun e => Nat.eqb (e_x e) x) l) = 0) as ->; [|lia].
  destruct (filter _ l) as [|b k] eqn:F; [reflexivity|]. exfalso. apply Ha.
  assert (In b (filter (fun e => Nat.eqb (e_x e) x) l)) as Hb by (rewrite F; left; reflexivity).
  apply filter_In in Hb as (Hb1 & Hb2). apply Nat.eqb_eq in Hb2. rewrite E, <- Hb2. apply in_map. exact Hb1.
Qed.

Lemma init_inv starts fi ft : starts_ok starts fi -> Inv (empty_world starts fi ft).
Proof.
  intros (H1 & H2 & H3). constructor.
  - unfold live_ids, hevents. cbn. rewrite app_nil_r. exact H1.
  - unfold live_ids, hevents. cbn. rewrite app_nil_r. intros m Hm. apply in_map_iff in Hm as (e & <- & He). apply H3. exact He.
  - intros x. unfold xinv. cbn. repeat split; try reflexivity; [apply cntx_nodup; exact H2|]. intros e He _. apply H3. exact He.
  - constructor.
  - intros m [].
Qed.

Definition reachable kind s0 starts w effs : Prop :=
  exists fi ft l, starts_ok starts fi /\ run kind s0 (empty_world starts fi ft) l = Some (w, effs).

Lemma reachable_inv kind s0 starts w effs : reachable kind s0 starts w effs ->
  Inv w /\ notes w = enotes effs /\ hist w = ehist effs /\ acked w = acks_of effs.
Proof.
  intros (fi & ft & l & Hs & Hr). destruct (run_inv _ _ _ _ _ _ (init_inv starts fi ft Hs) Hr) as (I & S1 & S2 & S3).
  split; [exact I|]. cbn in S1, S2, S3. repeat split; assumption.
Qed.

(* C02: per execution one RUNNING notification, then at most one terminal one, then nothing *)
Theorem notes_once kind s0 starts w effs x : reachable kind s0 starts w effs -> notes_pattern_ok (notes_of x effs) = true.
Proof.
  intros R. destruct (reachable_inv _ _ _ _ _ R) as (I & N & _). rewrite notes_of_proj, <- N.
  pose proof (i_x _ I x) as X. unfold xinv in X.
  destruct (get_status x (statuses w)) as [[| |]|]; destruct X as (-> & _); reflexivity.
Qed.

(* C02: the stored status is the last status notified, and a terminal status is stored iff it was notified *)
Theorem record_matches_notes kind s0 starts w effs x : reachable kind s0 starts w effs ->
  get_status x (statuses w) = last (map Some (notes_of x effs)) None.
Proof.
  intros R. destruct (reachable_inv _ _ _ _ _ R) as (I & N & _). rewrite notes_of_proj, <- N.
  pose proof (i_x _ I x) as X. unfold xinv in X.
  destruct (get_status x (statuses w)) as [[| |]|]; destruct X as (-> & _); reflexivity.
Qed.

(* C03: no event is ever acknowledged twice, and an acknowledged event is gone for good *)
Theorem acked_once kind s0 starts w effs : reachable kind s0 starts w effs ->
  NoDup (acks_of effs) /\ forall m, In m (acks_of effs) -> ~ In m (live_ids w).
Proof.
  intros R. destruct (reachable_inv _ _ _ _ _ R) as (I & _ & _ & A). rewrite <- A. split; [apply (i_acked_nd _ I)|].
  intros m Hm. apply (i_acked _ I m Hm).
Qed.

(* C03: a running execution always has exactly one event carrying it, queued or held; a finished one has none *)
Theorem token_conservation kind s0 starts w effs x : reachable kind s0 starts w effs ->
  match get_status x (statuses w) with
  | Some Running => tokens w x = 1
  | Some _ => tokens w x = 0
  | None => tokens w x <= 1
  end.
Proof.
  intros R. destruct (reachable_inv _ _ _ _ _ R) as (I & _). pose proof (i_x _ I x) as X. unfold xinv in X.
  destruct (get_status x (statuses w)) as [[| |]|]; try (destruct X as (_ & X & _); exact X).
  destruct X as (_ & _ & X1 & X2 & _). unfold tokens. lia.
Qed.

(* ------------------------------------------------------------------ C09 *)
Lemma quiet_no_started r : quiet r -> existsb (hkind_eqb HExecutionStarted) r = false.
Proof.
  unfold quiet. induction r as [|h r IH]; cbn [forallb existsb]; intros H; [reflexivity|].
  apply andb_prop in H as (H1 & H2). rewrite (IH H2), orb_false_r. destruct h; cbn in *; try reflexivity; discriminate.
Qed.

Lemma quiet_nat r : quiet r -> nothing_after_terminal r = true.
Proof.
  unfold quiet. induction r as [|h r IH]; cbn [forallb nothing_after_terminal]; intros H; [reflexivity|].
  apply andb_prop in H as (H1 & H2). unfold quiet_h in H1. apply andb_prop in H1 as (H1 & _).
  destruct (is_terminal_h h); [discriminate|]. apply IH. exact H2.
Qed.

Lemma quiet_nat_term r t : quiet r -> nothing_after_terminal (r ++ [t]) = true.
Proof.
  unfold quiet. induction r as [|h r IH]; cbn [forallb nothing_after_terminal app]; intros H; [destruct (is_terminal_h t); reflexivity|].
  apply andb_prop in H as (H1 & H2). unfold quiet_h in H1. apply andb_prop in H1 as (H1 & _).
  destruct (is_terminal_h h); [discriminate|]. apply IH. exact H2.
Qed.

Lemma shape_running r : quiet r -> hist_shape_ok (HExecutionStarted :: r) = true.
Proof.
  intros Q. unfold hist_shape_ok. rewrite (quiet_no_started r Q). cbn [hkind_eqb negb andb nothing_after_terminal is_terminal_h]. apply quiet_nat. exact Q.
Qed.

Lemma shape_terminal r st : quiet r -> st <> Running -> hist_shape_ok (HExecutionStarted :: r ++ [term_of st]) = true.
Proof.
  intros Q N. unfold hist_shape_ok. rewrite existsb_app, (quiet_no_started r Q).
  cbn [hkind_eqb negb andb nothing_after_terminal is_terminal_h]. rewrite (quiet_nat_term r _ Q).
  destruct st; [contradiction| |]; reflexivity.
Qed.

(* C09: the history of every execution starts with ExecutionStarted, has no second one, and nothing follows its terminal event *)
Theorem hist_shape kind s0 starts w effs x : reachable kind s0 starts w effs -> hist_shape_ok (hist_of x effs) = true.
Proof.
  intros R. destruct (reachable_inv _ _ _ _ _ R) as (I & _ & H & _). rewrite hist_of_proj, <- H.
  pose proof (i_x _ I x) as X. unfold xinv in X.
  destruct (get_status x (statuses w)) as [[| |]|].
  - destruct X as (_ & _ & _ & r & -> & Q). apply shape_running. exact Q.
  - destruct X as (_ & _ & r & -> & Q). apply (shape_terminal r Succeeded Q). discriminate.
  - destruct X as (_ & _ & r & -> & Q). apply (shape_terminal r Failed Q). discriminate.
  - destruct X as (_ & -> & _). reflexivity.
Qed.

Lemma quiet_no_term r : quiet r -> existsb (hkind_eqb HExecutionSucceeded) r = false /\ existsb (hkind_eqb HExecutionFailed) r = false.
Proof.
  unfold quiet. induction r as [|h r IH]; cbn [forallb existsb]; intros H; [split; reflexivity|].
  apply andb_prop in H as (H1 & H2). destruct (IH H2) as (-> & ->). rewrite !orb_false_r. destruct h; cbn in *; try (split; reflexivity); discriminate.
Qed.

(* C09 / C11: the history ends with the terminal event of exactly the status that was notified and recorded *)
Theorem hist_agrees_notes kind s0 starts w effs x : reachable kind s0 starts w effs -> hist_agrees x effs = true.
Proof.
  intros R. destruct (reachable_inv _ _ _ _ _ R) as (I & N & H & _). unfold hist_agrees. rewrite hist_of_proj, notes_of_proj, <- H, <- N.
  pose proof (i_x _ I x) as X. unfold xinv in X.
  destruct (get_status x (statuses w)) as [[| |]|].
  - destruct X as (-> & _ & _ & r & -> & Q). destruct (quiet_no_term r Q) as (E1 & E2). cbn [existsb hkind_eqb status_eqb orb]. rewrite E1, E2. reflexivity.
  - destruct X as (-> & _ & r & -> & Q). destruct (quiet_no_term r Q) as (E1 & E2).
    cbn [existsb hkind_eqb status_eqb orb]. rewrite !existsb_app, E1, E2. reflexivity.
  - destruct X as (-> & _ & r & -> & Q). destruct (quiet_no_term r Q) as (E1 & E2).
    cbn [existsb hkind_eqb status_eqb orb]. rewrite !existsb_app, E1, E2. reflexivity.
  - destruct X as (-> & -> & _). reflexivity.
Qed.

(* ------------------------------------------------- nothing happens after the end *)
Lemma app_tail_unique (r r' d : list hkind) t : r ++ [t] ++ d = r' ++ [t] -> quiet r' -> quiet_h t = false -> d = [].
Proof.
  revert r'. induction r as [|h r IH]; intros r' E Q T.
  - cbn in E. destruct r' as [|h' r']; cbn in E; [inversion E; reflexivity|]. inversion E; subst.
    unfold quiet in Q. cbn in Q. rewrite T in Q. discriminate.
  - destruct r' as [|h' r']; cbn in E.
    + inversion E as [[E1 E2]]. destruct r; discriminate.
    + inversion E; subst. apply (IH r'); [assumption| |assumption]. unfold quiet in *. cbn in Q. apply andb_prop in Q as (_ & Q). exact Q.
Qed.

Theorem nothing_after_end kind s0 starts w effs x i w' effs' :
  reachable kind s0 starts w effs -> ended (notes_of x effs) = true -> step kind s0 w i = Some (w', effs') ->
  notes_of x effs' = [] /\ hist_of x effs' = [] /\ get_status x (statuses w') = get_status x (statuses w).
Proof.
  intros R E Hs. destruct (reachable_inv _ _ _ _ _ R) as (I & N & H & _).
  pose proof (step_inv _ _ _ _ _ _ I Hs) as I'. destruct (step_sync _ _ _ _ _ _ Hs) as (S1 & S2 & _).
  rewrite notes_of_proj, <- N in E. rewrite !notes_of_proj, hist_of_proj.
  pose proof (i_x _ I x) as X. pose proof (i_x _ I' x) as X'. unfold xinv in X, X'. rewrite S1, S2, !proj_x_app in X'.
  destruct (get_status x (statuses w)) as [[| |]|]; try (destruct X as (Xn & _); rewrite Xn in E; discriminate).
  - destruct X as (Xn & _ & r & Xh & Q). rewrite Xn, Xh in X'.
    destruct (get_status x (statuses w')) as [[| |]|]; try (destruct X' as (X' & _); discriminate).
    destruct X' as (X1 & _ & r' & X2 & Q'). inversion X1 as [X1']. split; [destruct (proj_x x (enotes effs')); [reflexivity|discriminate]|].
      split; [|reflexivity]. cbn [app] in X2. inversion X2 as [X2']. rewrite <- app_assoc in X2'.
      apply (app_tail_unique r r' _ _ X2' Q'). reflexivity.
  - destruct X as (Xn & _ & r & Xh & Q). rewrite Xn, Xh in X'.
    destruct (get_status x (statuses w')) as [[| |]|]; try (destruct X' as (X' & _); discriminate).
    destruct X' as (X1 & _ & r' & X2 & Q'). inversion X1 as [X1']. split; [destruct (proj_x x (enotes effs')); [reflexivity|discriminate]|].
      split; [|reflexivity]. cbn [app] in X2. inversion X2 as [X2']. rewrite <- app_assoc in X2'.
      apply (app_tail_unique r r' _ _ X2' Q'). reflexivity.
Qed.

(* ------------------------------------------------------------- progress *)
Lemma cntx_pos_ex x l : 1 <= cntx x l -> exists e, In e l /\ e_x e = x.
Proof.
  unfold cntx. induction l as [|a l IH]; cbn [filter]; intros H; [cbn in H; lia|].
  destruct (Nat.eqb_spec (e_x a) x) as [E|E]; [exists a; split; [left; reflexivity|exact E]|].
  destruct (IH H) as (e & He & Hx). exists e. split; [right; exact He|exact Hx].
Qed.

Lemma find_event_some e q : In e q -> exists e', find_event (e_id e) q = Some e'.
Proof.
  induction q as [|a q IH]; cbn; intros H; [contradiction|]. destruct (Nat.eqb_spec (e_id a) (e_id e)) as [E|E]; [exists a; reflexivity|].
  destruct H as [H|H]; [subst; contradiction|apply IH; exact H].
Qed.

Lemma find_by_timer_some e p h : In (e, p) h -> exists e' p', find_by_timer (timer_of p) h = Some (e', p').
Proof.
  induction h as [|[a q] h IH]; cbn; intros H; [contradiction|]. destruct (Nat.eqb_spec (timer_of q) (timer_of p)) as [E|E]; [exists a, q; reflexivity|].
  destruct H as [H|H]; [inversion H; subst; contradiction|apply IH; exact H].
Qed.

(* C03: while an execution is RUNNING the engine is never stuck: its event is queued (and can be delivered)
   or is held by a handler whose timer can fire *)
Theorem no_deadlock kind s0 starts w effs x : reachable kind s0 starts w effs ->
  get_status x (statuses w) = Some Running -> exists i w' effs', step kind s0 w i = Some (w', effs').
Proof.
  intros R St. destruct (reachable_inv _ _ _ _ _ R) as (I & _). pose proof (i_x _ I x) as X. unfold xinv in X. rewrite St in X.
  destruct X as (_ & Tk & _). unfold tokens in Tk. set (n := Nat.max (next_id w) (next_tid w)).
  assert (Nat.leb (next_tid w) n = true) as Ln by (apply Nat.leb_le; unfold n; lia).
  destruct (cntx x (queue w)) eqn:Cq.
  - assert (1 <= cntx x (hevents w)) as Hp by lia. destruct (cntx_pos_ex _ _ Hp) as (e & He & _).
    unfold hevents in He. apply in_map_iff in He as ([e1 p] & <- & Hin). destruct (find_by_timer_some _ _ _ Hin) as (e' & p' & Hf).
    exists (IFire (timer_of p) (match p' with PPending _ => DFailed | _ => DEnd end) n). cbn [step]. rewrite Hf.
    destruct p'; cbn; rewrite ?Ln; eexists; eexists; reflexivity.
  - assert (1 <= cntx x (queue w)) as Hp by lia. destruct (cntx_pos_ex _ _ Hp) as (e & He & _). destruct (find_event_some _ _ He) as (e' & Hf).
    exists (IDeliver (e_id e) (match kind (state_of s0 e') with KFail => DFailed | _ => DEnd end) n). cbn [step]. rewrite Hf. unfold state_of.
    destruct (e_state e') as [s|]; unfold enter; cbn [with_queue started next_tid]; destruct (kind _) eqn:K; cbn; rewrite ?K, ?Ln; cbn;
      eexists; eexists; reflexivity.
Qed.

(* --------------------------------------------------- the hypotheses can be met *)
Example reachable_example :
  exists w effs, reachable (kind_fun [KTask; KWait; KSucceed]) 0
                   [{| e_id := 0; e_x := 0; e_state := None; e_retry := false |}; {| e_id := 1; e_x := 1; e_state := None; e_retry := false |}] w effs /\
                 get_status 0 (statuses w) = Some Succeeded /\ get_status 1 (statuses w) = Some Failed /\ queue w = [] /\ held w = [].
Proof.
  eexists. eexists. split.
  - exists 2, 0,
      [IDeliver 0 DEnd 0; IDeliver 1 DEnd 1; IFire 0 DEnd 2; IFire 1 DEnd 3; IWorker 0 true; IWorker 1 false;
       IReply 0 (DNext 1) 2; IReply 1 DFailed 0; IDeliver 2 DEnd 4; IFire 4 (DNext 2) 3; IDeliver 3 DEnd 0].
    split; [|vm_compute; reflexivity].
    split; [|split].
    + repeat constructor; cbn; intuition discriminate.
    + repeat constructor; cbn; intuition discriminate.
    + intros ev [<-|[<-|[]]]; cbn; auto.
  - vm_compute. repeat split; reflexivity.
Qed.

(* ------------------------------------------------------------------ crash and restart (C04) *)
(* the process dies: every delivered, unacknowledged event goes back to the head of the queue (the broker
   redelivers it); timers and the bookkeeping of pending requests are gone; what is at the workers, on the
   reply queue and in the stores stays *)
Definition crash (w : world) : world :=
  {| queue := hevents w ++ queue w; held := []; requests := requests w; replies := replies w; next_id := next_id w; next_tid := next_tid w;
     statuses := statuses w; notes := notes w; hist := hist w; acked := acked w |}.

(* C04: a crash loses no carrier: every execution has as many events carrying it as before, all of them queued again;
   records, notifications, history and acknowledgements are untouched *)
Theorem crash_loses_nothing w x :
  tokens (crash w) x = tokens w x /\ cntx x (hevents (crash w)) = 0 /\
  statuses (crash w) = statuses w /\ notes (crash w) = notes w /\ hist (crash w) = hist w /\ acked (crash w) = acked w /\
  (forall m, In m (live_ids (crash w)) <-> In m (live_ids w)).
Proof.
  assert (hevents (crash w) = []) as Hh by reflexivity.
  assert (queue (crash w) = hevents w ++ queue w) as Hq by reflexivity.
  unfold tokens. rewrite Hh, Hq, cntx_app. repeat split; try reflexivity; try (unfold cntx; cbn; lia).
  - unfold live_ids. rewrite Hh, Hq, map_app. cbn. rewrite app_nil_r, !in_app_iff. tauto.
  - unfold live_ids. rewrite Hh, Hq, map_app. cbn. rewrite app_nil_r, !in_app_iff. tauto.
Qed.

(* C04: whatever is queued can be delivered: after the restart every redelivered event has an enabled step *)
Theorem queued_event_can_be_delivered kind s0 w e : In e (queue w) -> exists i w' effs, step kind s0 w i = Some (w', effs).
Proof.
  intros He. destruct (find_event_some _ _ He) as (e' & Hf). set (n := Nat.max (next_id w) (next_tid w)).
  assert (Nat.leb (next_tid w) n = true) as Ln by (apply Nat.leb_le; unfold n; lia).
  exists (IDeliver (e_id e) (match kind (state_of s0 e') with KFail => DFailed | _ => DEnd end) n). cbn [step]. rewrite Hf. unfold state_of.
  destruct (e_state e') as [s|]; unfold enter; cbn [with_queue started next_tid]; destruct (kind _) eqn:K; cbn; rewrite ?K, ?Ln; cbn;
    eexists; eexists; reflexivity.
Qed.

(* C04: so an execution that had a carrier before the crash has an enabled step after it *)
Theorem carried_execution_survives_crash kind s0 w x : 1 <= tokens w x -> exists i w' effs, step kind s0 (crash w) i = Some (w', effs).
Proof.
  intros H. destruct (crash_loses_nothing w x) as (T & Hh & _). rewrite <- T in H. unfold tokens in H. rewrite Hh in H.
  assert (1 <= cntx x (queue (crash w))) as Q by lia. destruct (cntx_pos_ex _ _ Q) as (e & He & _).
  exact (queued_event_can_be_delivered kind s0 (crash w) e He).
Qed.

(* ------------------------------------------------------------------ timers are unique: a second, independent invariant *)
Record TInv (w : world) : Prop := { t_nodup : NoDup (tids w); t_fresh : forall t, In t (tids w) -> t < next_tid w }.

Lemma tids_app h1 h2 : map (fun p : event * phase => timer_of (snd p)) (h1 ++ h2) = map (fun p => timer_of (snd p)) h1 ++ map (fun p => timer_of (snd p)) h2.
Proof. apply map_app. Qed.

Lemma remove_held_tids_in m h t : In t (map (fun p : event * phase => timer_of (snd p)) (remove_held m h)) -> In t (map (fun p => timer_of (snd p)) h).
Proof.
  induction h as [|[a q] h IH]; cbn; [tauto|]. destruct (Nat.eqb (e_id a) m); cbn; [intros H; right; exact H|].
  intros [H|H]; [left; exact H|right; apply IH; exact H].
Qed.
Lemma remove_held_tids_nodup m h : NoDup (map (fun p : event * phase => timer_of (snd p)) h) -> NoDup (map (fun p => timer_of (snd p)) (remove_held m h)).
Proof.
  induction h as [|[a q] h IH]; cbn; intros H; [constructor|]. inversion H; subst. destruct (Nat.eqb (e_id a) m); [assumption|]. cbn.
  constructor; [intros F; apply remove_held_tids_in in F; contradiction|apply IH; assumption].
Qed.

Lemma set_phase_tids_in m n h t : In t (map (fun p : event * phase => timer_of (snd p)) (set_phase m (PPending n) h)) -> t = n \/ In t (map (fun p => timer_of (snd p)) h).
Proof.
  induction h as [|[a q] h IH]; cbn; [tauto|]. destruct (Nat.eqb (e_id a) m); cbn.
  - intros [H|H]; [left; symmetry; exact H|right; right; exact H].
  - intros [H|H]; [right; left; exact H|]. destruct (IH H); [left; assumption|right; right; assumption].
Qed.
Lemma set_phase_tids_nodup m n h : NoDup (map (fun p : event * phase => timer_of (snd p)) h) -> ~ In n (map (fun p => timer_of (snd p)) h) ->
  NoDup (map (fun p => timer_of (snd p)) (set_phase m (PPending n) h)).
Proof.
  induction h as [|[a q] h IH]; cbn; intros H N; [constructor|]. inversion H; subst. destruct (Nat.eqb (e_id a) m); cbn.
  - constructor; [intros F; apply N; right; exact F|assumption].
  - constructor.
    + intros F. apply set_phase_tids_in in F as [F|F]; [apply N; left; exact F|contradiction].
    + apply IH; [assumption|]. intros F. apply N. right. exact F.
Qed.

Lemma tinv_finished w e s d n hs : TInv w -> TInv (finished w e s d n hs).
Proof.
  intros [Nd Fr]. unfold tids in *. constructor.
  - unfold tids. destruct d; cbn [finished held]; apply remove_held_tids_nodup; exact Nd.
  - intros t Ht. unfold tids in Ht. destruct d; cbn [finished held next_tid] in *; apply remove_held_tids_in in Ht; apply Fr; exact Ht.
Qed.

Lemma tinv_same_held w w' : held w' = held w -> next_tid w' = next_tid w -> TInv w -> TInv w'.
Proof. intros Hh Hn [Nd Fr]. constructor; unfold tids in *; rewrite Hh; [exact Nd|rewrite Hn; exact Fr]. Qed.

Lemma tinv_enter kind w e s d n w' effs : TInv w -> enter kind w e s d n = Some (w', effs) -> TInv w'.
Proof.
  intros T H. unfold enter in H.
  destruct (kind s);
    try (destruct (id_ok w d n); [|discriminate]; apply some_fst in H; subst; apply tinv_finished; exact T);
    (destruct (Nat.leb_spec (next_tid w) n) as [L|L]; [|discriminate]; apply some_fst in H; subst; destruct T as [Nd Fr]; constructor; unfold tids, with_held in *; cbn [held next_tid];
     [rewrite tids_app; cbn; apply nodup_snoc; [exact Nd|intros F; apply Fr in F; lia]
     |intros t Ht; rewrite tids_app in Ht; apply in_app_iff in Ht as [Ht|[Ht|[]]]; [apply Fr in Ht; lia|cbn in Ht; lia]]).
Qed.

Theorem step_tinv kind s0 w i w' effs : TInv w -> step kind s0 w i = Some (w', effs) -> TInv w'.
Proof.
  intros T H. destruct i as [m d n|t d n|corr ok|corr d n|t]; cbn [step] in H.
  - destruct (find_event m (queue w)) as [e|]; [|discriminate].
    assert (TInv (with_queue w (remove_event m (queue w)))) as T0 by (apply (tinv_same_held w); [reflexivity|reflexivity|exact T]).
    destruct (e_state e) as [s|].
    + destruct (decision_ok _ _); [|discriminate]. eapply tinv_enter; eassumption.
    + destruct (decision_ok _ _); [|discriminate]. destruct (enter kind _ e s0 d n) as [[w2 effs2]|] eqn:He; [|discriminate]. apply some_fst in H; subst.
      eapply tinv_enter; [|exact He]. apply (tinv_same_held (with_queue w (remove_event m (queue w)))); [reflexivity|reflexivity|exact T0].
  - destruct (find_by_timer t (held w)) as [[e p]|]; [|discriminate]. destruct p as [t'|t'|t'].
    + destruct d as [s'| | |]; try (destruct (id_ok w _ n); [|discriminate]; apply some_fst in H; subst; apply tinv_finished; exact T).
      destruct (Nat.leb_spec (next_tid w) n) as [L|L]; [|discriminate]. apply some_fst in H; subst. destruct T as [Nd Fr]. constructor; unfold tids in *; cbn [held next_tid].
      * apply set_phase_tids_nodup; [exact Nd|intros F; apply Fr in F; lia].
      * intros u Hu. apply set_phase_tids_in in Hu as [->|Hu]; [lia|apply Fr in Hu; lia].
    + destruct (_ && _); [|discriminate]. apply some_fst in H; subst. apply tinv_finished; exact T.
    + destruct d as [s'| | |]; try discriminate; (destruct (id_ok w _ n); [|discriminate]; apply some_fst in H; subst; apply tinv_finished; exact T).
  - destruct (existsb _ _); [|discriminate]. apply some_fst in H; subst. apply (tinv_same_held w); [reflexivity|reflexivity|exact T].
  - destruct (replies w) as [|[c ok] rest]; [discriminate|]. destruct (Nat.eqb c corr); [|discriminate].
    match type of H with context [finished ?W0 _ _ _ _ _] => assert (TInv W0) as T0 by (apply (tinv_same_held w); [reflexivity|reflexivity|exact T]) end.
    destruct (find_held corr (held w)) as [[e [t'|t'|t']]|]; try (apply some_fst in H; subst; apply (tinv_same_held w); [reflexivity|reflexivity|exact T]).
    destruct (_ && _); [|discriminate]. apply some_fst in H; subst. apply tinv_finished; exact T0.
  - destruct (find_by_timer t (held w)) as [[e [t'|t'|t']]|]; try discriminate. apply some_fst in H; subst. apply tinv_finished; exact T.
Qed.

Lemma tinv_init starts fi ft : TInv (empty_world starts fi ft).
Proof. constructor; cbn; [constructor|intros t []]. Qed.

Lemma run_tinv kind s0 l : forall w w' effs, TInv w -> run kind s0 w l = Some (w', effs) -> TInv w'.
Proof.
  induction l as [|i l IH]; cbn [run]; intros w w' effs T H; [apply some_fst in H; subst; exact T|].
  destruct (step kind s0 w i) as [[w1 e1]|] eqn:Hs; [|discriminate]. destruct (run kind s0 w1 l) as [[w2 e2]|] eqn:Hr; [|discriminate].
  apply some_fst in H; subst. apply (IH w1 w2 e2); [eapply step_tinv; eassumption|exact Hr].
Qed.

(* ------------------------------------------------------------------ progress of THIS execution *)
(* the step is a handler invocation for an event of execution x *)
Definition moves (w : world) (i : input) (x : xid) : Prop :=
  match i with
  | IDeliver m _ _ => option_map e_x (find_event m (queue w)) = Some x
  | IFire t _ _ => option_map (fun ep : event * phase => e_x (fst ep)) (find_by_timer t (held w)) = Some x
  | _ => False
  end.

Lemma nodup_map_inj {A} (f : A -> nat) (l : list A) a b : NoDup (map f l) -> In a l -> In b l -> f a = f b -> a = b.
Proof.
  induction l as [|c l IH]; cbn; intros H Ha Hb E; [contradiction|]. inversion H as [|? ? Hc Hl]; subst.
  destruct Ha as [->|Ha], Hb as [->|Hb]; [reflexivity| | |apply IH; assumption].
  - exfalso. apply Hc. rewrite E. apply in_map. exact Hb.
  - exfalso. apply Hc. rewrite <- E. apply in_map. exact Ha.
Qed.

Theorem running_execution_can_move kind s0 starts w effs x : reachable kind s0 starts w effs ->
  get_status x (statuses w) = Some Running -> exists i w' effs', step kind s0 w i = Some (w', effs') /\ moves w i x.
Proof.
  intros R St. destruct (reachable_inv _ _ _ _ _ R) as (I & _).
  assert (TInv w) as T by (destruct R as (fi & ft & l & Hs & Hr); eapply run_tinv; [apply tinv_init|exact Hr]).
  pose proof (i_x _ I x) as X. unfold xinv in X. rewrite St in X. destruct X as (_ & Tk & _). unfold tokens in Tk. set (n := Nat.max (next_id w) (next_tid w)).
  assert (Nat.leb (next_tid w) n = true) as Ln by (apply Nat.leb_le; unfold n; lia).
  pose proof (i_nodup _ I) as Nd. unfold live_ids in Nd.
  destruct (cntx x (queue w)) eqn:Cq.
  - assert (1 <= cntx x (hevents w)) as Hp by lia. destruct (cntx_pos_ex _ _ Hp) as (e & He & Hx).
    unfold hevents in He. apply in_map_iff in He as ([e1 p] & E1 & Hin). cbn in E1. subst e1. destruct (find_by_timer_some _ _ _ Hin) as (e' & p' & Hf).
    destruct (find_by_timer_spec _ _ _ _ Hf) as (Hin' & Ht').
    assert ((e', p') = (e, p)) as Eq by (apply (nodup_map_inj (fun q : event * phase => timer_of (snd q)) (held w)); [exact (t_nodup _ T)|exact Hin'|exact Hin|exact Ht']).
    inversion Eq; subst e' p'.
    exists (IFire (timer_of p) (match p with PPending _ => DFailed | _ => DEnd end) n). cbn [step moves]. rewrite Hf. cbn [option_map fst]. rewrite Hx.
    destruct p; cbn; rewrite ?Ln; eexists; eexists; split; reflexivity.
  - assert (1 <= cntx x (queue w)) as Hp by lia. destruct (cntx_pos_ex _ _ Hp) as (e & He & Hx). destruct (find_event_some _ _ He) as (e' & Hf).
    destruct (find_event_spec _ _ _ Hf) as (He' & Hid).
    assert (e' = e) as -> by (apply (nodup_map_inj e_id (queue w)); [apply (nodup_app_l _ _ Nd)|exact He'|exact He|exact Hid]).
    exists (IDeliver (e_id e) (match kind (state_of s0 e) with KFail => DFailed | _ => DEnd end) n). cbn [step moves]. rewrite Hf. cbn [option_map]. rewrite Hx. unfold state_of.
    destruct (e_state e) as [s|]; unfold enter; cbn [with_queue started next_tid]; destruct (kind _) eqn:K; cbn; rewrite ?K, ?Ln; cbn;
      eexists; eexists; split; reflexivity.
Qed.
