(* WRITTEN by harness/update_pins.py -- digests of the source functions that the
   hand-written models were validated against.  Each lemma is a proof obligation. *)
From LSF Require Import PyStr GenTypes Time_gen.
Open Scope string_scope.

Lemma pin_parse_rfc3339_datetime_ok : pin_parse_rfc3339_datetime = "2bb94bc6b9f17b7b". Proof. reflexivity. Qed.
