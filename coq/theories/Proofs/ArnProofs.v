(* Round trips of the generated arn.py and of every ARN derivation site. *)
From LSF Require Import PyStr Py GenTypes Names_gen Arn_gen Sites_gen Names.
Open Scope string_scope.

Definition colon : ascii := ":"%char.
Definition slash : ascii := "/"%char.
Definition nocolon (s : string) : Prop := has_char colon s = false.
Definition noslash (s : string) : Prop := has_char slash s = false.

Record parts := {
  p_arn : string; p_partition : string; p_service : string; p_region : string;
  p_account : string; p_rtype : option string; p_resource : string }.

Definition wf_parts (p : parts) : Prop :=
  nocolon (p_arn p) /\ nocolon (p_partition p) /\ nocolon (p_service p) /\
  nocolon (p_region p) /\ nocolon (p_account p) /\ noslash (p_resource p) /\
  match p_rtype p with
  | None => nocolon (p_resource p)
  | Some t => t <> "" /\ nocolon t /\ noslash t
  end.

Definition rtype_pv (o : option string) : pv :=
  match o with None => PNone | Some t => PStr t end.

Definition parts_dict (p : parts) : pv :=
  PDict [("arn", PStr (p_arn p)); ("partition", PStr (p_partition p));
         ("service", PStr (p_service p)); ("region", PStr (p_region p));
         ("account", PStr (p_account p)); ("resource", PStr (p_resource p));
         ("resource_type", rtype_pv (p_rtype p))].

Definition create_of (p : parts) : option pv :=
  create_arn (PStr (p_resource p)) (PStr (p_arn p)) (PStr (p_partition p)) (PStr (p_service p))
             (PStr (p_region p)) (PStr (p_account p)) (rtype_pv (p_rtype p)).

Definition render (p : parts) : string :=
  p_arn p ++ ":" ++ p_partition p ++ ":" ++ p_service p ++ ":" ++ p_region p ++ ":" ++
  p_account p ++ ":" ++
  match p_rtype p with None => p_resource p | Some t => t ++ ":" ++ p_resource p end.

Lemma eqb_empty_false t : t <> "" -> String.eqb t "" = false.
Proof. intros H. destruct (String.eqb_spec t ""); congruence. Qed.

Ltac simp_py :=
  cbn [bind py_add py_format py_format_aux py_str py_truthy py_isdict negb
       py_split py_in py_getitem py_setitem py_get one_char dict_get dict_set
       String.eqb Ascii.eqb Bool.eqb Z.ltb Z.to_nat nth_error map Pos.to_nat Pos.iter_op
       rtype_pv Nat.eqb length Nat.add kw_ok kw_arg existsb orb andb py_rpartition
       Z.compare Pos.compare Pos.compare_cont Pos.succ];
  repeat match goal with
         | |- context [Pos.to_nat ?p] =>
             let n := eval compute in (Pos.to_nat p) in change (Pos.to_nat p) with n
         end;
  cbn [bind nth_error py_in py_split py_getitem py_setitem dict_get dict_set String.eqb Ascii.eqb Bool.eqb one_char
       Nat.eqb length map andb orb].

Lemma create_of_render p :
  (match p_rtype p with Some t => t <> "" | None => True end) ->
  create_of p = Some (PStr (render p)).
Proof.
  intros H. unfold create_of, create_arn, create_arn_body, render.
  destruct p as [a pa s r ac rt res]; cbn [p_arn p_partition p_service p_region p_account p_rtype p_resource] in *.
  destruct rt as [t|]; simp_py.
  - rewrite (eqb_empty_false _ H). simp_py. rewrite append_nil_r, ?append_assoc. cbn [append]. reflexivity.
  - rewrite append_nil_r. cbn [append]. reflexivity.
Qed.

Lemma has_char_colon_mid a b : has_char colon (a ++ String colon b) = true.
Proof. rewrite has_char_app. cbn [has_char]. rewrite ascii_eqb_refl. cbn [orb]. apply orb_true_r. Qed.

Lemma parse_render p : wf_parts p -> parse_arn (PStr (render p)) = Some (parts_dict p).
Proof.
  intros (Ha & Hp & Hs & Hr & Hac & Hres & Hrt).
  unfold parse_arn, render, parts_dict.
  destruct p as [a pa s r ac rt res]; cbn [p_arn p_partition p_service p_region p_account p_rtype p_resource] in *.
  simp_py. cbn [append].
  change ":"%char with colon.
  repeat (rewrite split_char_n_app by assumption).
  cbn [split_char_n map]. simp_py.
  destruct rt as [t|].
  - destruct Hrt as (Hne & Htc & Hts).
    change "/"%char with slash.
    replace (has_char slash (t ++ String colon res)) with false
      by (rewrite has_char_app; cbn [has_char]; rewrite Hts, Hres; reflexivity).
    simp_py. rewrite has_char_colon_mid. simp_py.
    rewrite split_char_n_app by assumption. cbn [split_char_n map]. simp_py. reflexivity.
  - change "/"%char with slash. rewrite Hres. simp_py.
    change ":"%char with colon. rewrite Hrt. reflexivity.
Qed.

Theorem parse_create_lemma p :
  wf_parts p -> (a <- create_of p ;; parse_arn a) = Some (parts_dict p).
Proof.
  intros H. rewrite create_of_render.
  - cbn [bind]. apply parse_render; assumption.
  - destruct H as (_ & _ & _ & _ & _ & _ & H). destruct (p_rtype p); [tauto|exact I].
Qed.

Theorem create_parse_lemma p :
  wf_parts p -> (d <- parse_arn (PStr (render p)) ;; create_arn_kw d) = Some (PStr (render p)).
Proof.
  intros H. rewrite parse_render by assumption. cbn [bind].
  rewrite <- create_of_render.
  - unfold create_arn_kw, parts_dict, create_of, create_arn, create_arn_nodict. simp_py.
    unfold create_arn_body. simp_py. reflexivity.
  - destruct H as (_ & _ & _ & _ & _ & _ & H). destruct (p_rtype p); [tauto|exact I].
Qed.

(* ------------------------------------------------------------- valid_name *)

Lemma exists_char_has f c s : f c = true -> has_char c s = true -> exists_char f s = true.
Proof.
  intros Hf. induction s as [|a r IH]; cbn [has_char exists_char]; intros H; [discriminate|].
  apply orb_true_iff in H as [H|H].
  - apply ascii_eqb_eq in H. subst. rewrite Hf. reflexivity.
  - rewrite (IH H). apply orb_true_r.
Qed.

Lemma valid_name_plain_safe lo hi tbl s :
  valid_name_of Gt_ lo Lt_ hi Plain tbl s = true ->
  (N.of_nat (String.length s) > lo)%N /\ (N.of_nat (String.length s) < hi)%N /\
  forall c, forbidden tbl c = true -> has_char c s = false.
Proof.
  unfold valid_name_of, cmp_holds, rx_search. intros H.
  apply andb_true_iff in H as [H H3]. apply andb_true_iff in H as [H1 H2].
  apply N.ltb_lt in H1, H2. split; [lia|]. split; [lia|].
  intros c Hc. destruct (has_char c s) eqn:E; [|reflexivity].
  rewrite (exists_char_has _ _ _ Hc E) in H3. discriminate.
Qed.

Lemma valid_name_aio_safe_lemma s :
  valid_name_aio s = true ->
  nocolon s /\ noslash s /\ 1 <= String.length s <= 80.
Proof.
  intros H. unfold valid_name_aio, aio_name_lo_cmp, aio_name_hi_cmp, aio_name_shape in H.
  apply valid_name_plain_safe in H as (H1 & H2 & H3).
  unfold aio_name_lo in H1. unfold aio_name_hi in H2.
  repeat split; try lia; apply H3; reflexivity.
Qed.

Lemma valid_name_blk_safe_lemma s :
  valid_name_blk s = true ->
  nocolon s /\ noslash s /\ 1 <= String.length s <= 80.
Proof.
  intros H. unfold valid_name_blk, blk_name_lo_cmp, blk_name_hi_cmp, blk_name_shape in H.
  apply valid_name_plain_safe in H as (H1 & H2 & H3).
  unfold blk_name_lo in H1. unfold blk_name_hi in H2.
  repeat split; try lia; apply H3; reflexivity.
Qed.

(* the implementation's predicate is exactly the documented one *)
Definition same_table (t1 t2 : list nat) : bool :=
  forallb (fun n => Bool.eqb (existsb (Nat.eqb n) t1) (existsb (Nat.eqb n) t2)) (seq 0 256).

Lemma nat_of_ascii_lt a : nat_of_ascii a < 256.
Proof. apply nat_ascii_bounded. Qed.

Lemma same_table_forbidden t1 t2 : same_table t1 t2 = true -> forall a, forbidden t1 a = forbidden t2 a.
Proof.
  unfold same_table, forbidden. intros H a. rewrite forallb_forall in H.
  specialize (H (nat_of_ascii a)). apply eqb_prop. apply H. apply in_seq.
  pose proof (nat_of_ascii_lt a). lia.
Qed.

Lemma exists_char_ext f g s : (forall a, f a = g a) -> exists_char f s = exists_char g s.
Proof. intros E. induction s as [|a r IH]; cbn [exists_char]; [reflexivity|]. rewrite E, IH. reflexivity. Qed.

Lemma len_bounds s :
  N.ltb 0 (N.of_nat (String.length s)) && N.ltb (N.of_nat (String.length s)) 81
  = Nat.leb 1 (String.length s) && Nat.leb (String.length s) 80.
Proof.
  destruct (Nat.leb_spec 1 (String.length s)), (Nat.leb_spec (String.length s) 80),
    (N.ltb_spec 0 (N.of_nat (String.length s))), (N.ltb_spec (N.of_nat (String.length s)) 81);
    try reflexivity; lia.
Qed.

Lemma valid_name_aio_is_spec s : valid_name_aio s = spec_valid_name s.
Proof.
  unfold valid_name_aio, valid_name_of, spec_valid_name, cmp_holds, rx_search,
    aio_name_lo_cmp, aio_name_hi_cmp, aio_name_shape, aio_name_lo, aio_name_hi.
  rewrite len_bounds. f_equal. f_equal. apply exists_char_ext.
  apply same_table_forbidden. vm_compute. reflexivity.
Qed.

Lemma valid_name_blk_is_spec s : valid_name_blk s = spec_valid_name s.
Proof.
  unfold valid_name_blk, valid_name_of, spec_valid_name, cmp_holds, rx_search,
    blk_name_lo_cmp, blk_name_hi_cmp, blk_name_shape, blk_name_lo, blk_name_hi.
  rewrite len_bounds. f_equal. f_equal. apply exists_char_ext.
  apply same_table_forbidden. vm_compute. reflexivity.
Qed.

(* ------------------------------------------------------- derivation sites *)

Definition sm_arn (region account name : string) : string :=
  render {| p_arn := "arn"; p_partition := "aws"; p_service := "states"; p_region := region;
            p_account := account; p_rtype := Some "stateMachine"; p_resource := name |}.


Definition exec_prefix (region account name : string) : string :=
  render {| p_arn := "arn"; p_partition := "aws"; p_service := "states"; p_region := region;
            p_account := account; p_rtype := Some "execution"; p_resource := name |}.

Definition exec_arn (region account name ename : string) : string :=
  exec_prefix region account name ++ String colon ename.

Lemma wf_sm region account name t :
  t <> "" -> nocolon t -> noslash t ->
  nocolon region -> nocolon account -> noslash name ->
  wf_parts {| p_arn := "arn"; p_partition := "aws"; p_service := "states"; p_region := region;
              p_account := account; p_rtype := Some t; p_resource := name |}.
Proof. intros. repeat split; try assumption; reflexivity. Qed.

Lemma exec_arn_shape region account name ename :
  "arn:aws:states:" ++ region ++ ":" ++ account ++ ":execution:" ++ name ++ ":" ++ ename
  = exec_arn region account name ename.
Proof.
  unfold exec_arn, exec_prefix, render. cbn [p_arn p_partition p_service p_region p_account p_rtype p_resource append].
  rewrite ?append_assoc. cbn [append]. rewrite ?append_assoc. cbn [append]. reflexivity.
Qed.

Ltac prove_mint :=
  intros; unfold sm_arn;
  match goal with
  | |- ?f _ _ _ = _ => unfold f
  | |- ?f _ _ = _ => unfold f
  end;
  rewrite parse_render by (apply wf_sm; first [assumption | reflexivity | discriminate]);
  unfold parts_dict; simp_py;
  unfold create_arn, create_arn_body; simp_py;
  rewrite <- exec_arn_shape; rewrite ?append_nil_r, ?append_assoc; cbn [append];
  rewrite ?append_assoc; cbn [append]; reflexivity.

Lemma mint_exec_aio_1_ok region account name ename selfregion :
  nocolon region -> nocolon account -> noslash name ->
  mint_exec_aio_1 (PStr ename) (PStr selfregion) (PStr (sm_arn region account name))
  = Some (PList [PStr (exec_arn region account name ename)]).
Proof. prove_mint. Qed.

Lemma mint_exec_aio_2_ok region account name ename selfregion :
  nocolon region -> nocolon account -> noslash name ->
  mint_exec_aio_2 (PStr ename) (PStr selfregion) (PStr (sm_arn region account name))
  = Some (PList [PStr (exec_arn region account name ename)]).
Proof. prove_mint. Qed.

Lemma mint_exec_blk_1_ok region account name ename selfregion :
  nocolon region -> nocolon account -> noslash name ->
  mint_exec_blk_1 (PStr ename) (PStr selfregion) (PStr (sm_arn region account name))
  = Some (PList [PStr (exec_arn region account name ename)]).
Proof. prove_mint. Qed.

Lemma mint_exec_eng_1_ok region account name ename other :
  nocolon region -> nocolon account -> noslash name ->
  mint_exec_eng_1 (PDict (("Name", PStr ename) :: other)) (PStr (sm_arn region account name))
  = Some (PList [PStr (exec_arn region account name ename)]).
Proof. prove_mint. Qed.

Lemma mint_exec_td_1_named_ok region account name ename evid other :
  nocolon region -> nocolon account -> noslash name ->
  mint_exec_td_1 (PStr (sm_arn region account name)) (PStr evid) (PDict (("Name", PStr ename) :: other))
  = Some (PList [PStr (exec_arn region account name ename)]).
Proof. prove_mint. Qed.

Lemma mint_exec_td_1_default_ok region account name evid :
  nocolon region -> nocolon account -> noslash name ->
  mint_exec_td_1 (PStr (sm_arn region account name)) (PStr evid) (PDict [])
  = Some (PList [PStr (exec_arn region account name evid)]).
Proof. prove_mint. Qed.

Ltac prove_derive :=
  intros; unfold exec_arn;
  match goal with |- ?f _ = _ => unfold f end;
  cbn [py_rpartition one_char bind];
  change ":"%char with colon;
  unfold rpartition_char; rewrite rfind_char_app by assumption;
  simp_py;
  unfold exec_prefix; rewrite parse_render by (apply wf_sm; first [assumption | reflexivity | discriminate]);
  unfold parts_dict; simp_py;
  unfold create_arn, create_arn_body, create_arn_kw, create_arn_nodict, create_arn_body; simp_py;
  unfold sm_arn, render; cbn [p_arn p_partition p_service p_region p_account p_rtype p_resource append];
  rewrite ?append_nil_r, ?append_assoc; cbn [append]; reflexivity.

Lemma derive_eng_1_ok region account name ename :
  nocolon region -> nocolon account -> nocolon name -> noslash name -> nocolon ename ->
  derive_eng_1 (PStr (exec_arn region account name ename))
  = Some (PList [PStr (sm_arn region account name); PStr ename]).
Proof. prove_derive. Qed.

Lemma derive_eng_2_ok region account name ename :
  nocolon region -> nocolon account -> nocolon name -> noslash name -> nocolon ename ->
  derive_eng_2 (PStr (exec_arn region account name ename))
  = Some (PList [PStr (sm_arn region account name); PStr ename]).
Proof. prove_derive. Qed.

Lemma derive_eng_3_ok region account name ename :
  nocolon region -> nocolon account -> nocolon name -> noslash name -> nocolon ename ->
  derive_eng_3 (PStr (exec_arn region account name ename))
  = Some (PList [PStr (sm_arn region account name); PStr ename]).
Proof. prove_derive. Qed.

(* CreateStateMachine: the ARN minted from a valid role ARN and name *)
Definition role_arn (account rest : string) : string :=
  "arn" ++ String colon ("aws" ++ String colon ("iam" ++ String colon ("" ++ String colon
    (account ++ String colon ("role" ++ String slash rest))))).

Lemma role_arn_shape account rest :
  "arn:aws:iam::" ++ account ++ ":role/" ++ rest = role_arn account rest.
Proof. unfold role_arn. cbn [append]. reflexivity. Qed.

Lemma all_digits_nocolon s : forall_char is_digit s = true -> nocolon s.
Proof.
  unfold nocolon. induction s as [|a r IH]; cbn [forall_char has_char]; intros H; [reflexivity|].
  apply andb_true_iff in H as [Ha Hr]. rewrite (IH Hr), orb_false_r.
  apply ascii_eqb_neq. intros ->. discriminate.
Qed.

Ltac prove_mint_sm :=
  intros; unfold role_arn;
  match goal with |- ?f _ _ _ = _ => unfold f end;
  unfold parse_arn; cbn [py_split one_char bind];
  change ":"%char with colon;
  repeat (rewrite split_char_n_app by first [assumption | reflexivity]);
  cbn [split_char_n map]; simp_py;
  change "/"%char with slash;
  match goal with |- context [has_char slash ("role" ++ String slash ?r)] =>
    replace (has_char slash ("role" ++ String slash r)) with true by (cbn; reflexivity) end;
  cbn [bind py_split one_char];
  change "/"%char with slash;
  rewrite split_char_n_app by reflexivity;
  cbn [split_char_n map]; simp_py;
  unfold create_arn, create_arn_body; simp_py;
  unfold sm_arn, render; cbn [p_arn p_partition p_service p_region p_account p_rtype p_resource append];
  rewrite ?append_nil_r, ?append_assoc; cbn [append]; reflexivity.

Lemma mint_sm_aio_1_ok region account name rest :
  nocolon account ->
  mint_sm_aio_1 (PStr name) (PStr (role_arn account rest)) (PStr region)
  = Some (PList [PStr (sm_arn region account name)]).
Proof. prove_mint_sm. Qed.

Lemma mint_sm_blk_1_ok region account name rest :
  nocolon account ->
  mint_sm_blk_1 (PStr name) (PStr (role_arn account rest)) (PStr region)
  = Some (PList [PStr (sm_arn region account name)]).
Proof. prove_mint_sm. Qed.
