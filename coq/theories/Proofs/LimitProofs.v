From LSF Require Import PyStr Json Dumps GenTypes Limits_gen Limits.
Open Scope N_scope.

Ltac limit_tac :=
  intros n; unfold rejected, spec_accept_data, spec_accept_definition, spec_accept_history,
    limit_data, limit_definition, limit_history,
    reject_se_change_state, reject_se_history, reject_td_reply, reject_aio_create, reject_aio_update, reject_aio_start,
    reject_aio_startsync, reject_aio_sendtasksuccess, reject_blk_create, reject_blk_update, reject_blk_start;
  cbn [existsb cmp_holds orb];
  unfold MAX_DATA_LENGTH, MAX_DATA_LENGTH_td, MAX_STATE_MACHINE_LENGTH, MAX_EXECUTION_HISTORY_LENGTH;
  repeat match goal with
         | |- context [N.ltb ?a ?b] => destruct (N.ltb_spec a b)
         | |- context [N.leb ?a ?b] => destruct (N.leb_spec a b)
         | |- context [N.eqb ?a ?b] => destruct (N.eqb_spec a b)
         end; cbn; try reflexivity; exfalso; lia.

Lemma se_change_state_exact : forall n, rejected reject_se_change_state n = negb (spec_accept_data n).
Proof. limit_tac. Qed.
Lemma td_reply_exact : forall n, rejected reject_td_reply n = negb (spec_accept_data n).
Proof. limit_tac. Qed.
Lemma aio_start_exact : forall n, rejected reject_aio_start n = negb (spec_accept_data n).
Proof. limit_tac. Qed.
Lemma aio_startsync_exact : forall n, rejected reject_aio_startsync n = negb (spec_accept_data n).
Proof. limit_tac. Qed.
Lemma aio_sendtasksuccess_exact : forall n, rejected reject_aio_sendtasksuccess n = negb (spec_accept_data n).
Proof. limit_tac. Qed.
Lemma blk_start_exact : forall n, rejected reject_blk_start n = negb (spec_accept_data n).
Proof. limit_tac. Qed.
Lemma aio_create_exact : forall n, rejected reject_aio_create n = negb (spec_accept_definition n).
Proof. limit_tac. Qed.
Lemma aio_update_exact : forall n, rejected reject_aio_update n = negb (spec_accept_definition n).
Proof. limit_tac. Qed.
Lemma blk_create_exact : forall n, rejected reject_blk_create n = negb (spec_accept_definition n).
Proof. limit_tac. Qed.
Lemma blk_update_exact : forall n, rejected reject_blk_update n = negb (spec_accept_definition n).
Proof. limit_tac. Qed.
Lemma se_history_exact : forall n, rejected reject_se_history n = negb (spec_accept_history n).
Proof. limit_tac. Qed.

Lemma state_output_boundary data n :
  dumps_len data = Some n -> state_output_accepted data = Some (n <=? 262144).
Proof.
  intros H. unfold state_output_accepted. rewrite H, se_change_state_exact.
  unfold spec_accept_data, limit_data. rewrite negb_involutive. reflexivity.
Qed.
