(* Choice rules (C14): the generated handler table is the documented one, the
   table-driven evaluation agrees with the typed specification, And/Or/Not are the
   Boolean connectives, the first matching rule wins, '*' is the only wildcard. *)
From LSF Require Import PyStr Json GenTypes Choice_gen PathSpec Paths Timestamp Choice ChoiceSpec.
From Coq Require Import QArith.
Close Scope Q_scope.
Open Scope string_scope.

(* ------------------------------------------------- the table read from the code *)
Fixpoint erase (k : choice_kind) : choice_kind :=
  match k with KSpecial _ => KSpecial "" | KGuard k' => KGuard (erase k') | x => x end.

Definition documented_table : list (string * choice_kind) := [
  ("And", KSpecial ""); ("Or", KSpecial ""); ("Not", KSpecial "");
  ("BooleanEquals", KGuard (KCmp Eq_ TBool));
  ("NumericEquals", KNum Eq_); ("NumericGreaterThan", KNum Gt_); ("NumericGreaterThanEquals", KNum Ge_);
  ("NumericLessThan", KNum Lt_); ("NumericLessThanEquals", KNum Le_);
  ("StringEquals", KCmp Eq_ TStr); ("CaseInsensitiveStringEquals", KCmpLower Eq_);
  ("StringGreaterThan", KCmp Gt_ TStr); ("StringGreaterThanEquals", KCmp Ge_ TStr);
  ("StringLessThan", KCmp Lt_ TStr); ("StringLessThanEquals", KCmp Le_ TStr);
  ("StringMatches", KSpecial "");
  ("TimestampEquals", KTs Eq_); ("TimestampGreaterThan", KTs Gt_); ("TimestampGreaterThanEquals", KTs Ge_);
  ("TimestampLessThan", KTs Lt_); ("TimestampLessThanEquals", KTs Le_);
  ("IsBoolean", KSpecial ""); ("IsNull", KSpecial ""); ("IsNumeric", KSpecial ""); ("IsString", KSpecial "");
  ("IsPresent", KSpecial ""); ("IsTimestamp", KSpecial "")].

Lemma table_documented : map (fun p => (fst p, erase (snd p))) choice_table = documented_table.
Proof. vm_compute. reflexivity. Qed.


Ltac eval_streq :=
  repeat match goal with
         | |- context [String.eqb ?a ?b] =>
             let t := eval vm_compute in (String.eqb a b) in
             match t with
             | true => change (String.eqb a b) with true
             | false => change (String.eqb a b) with false
             end
         end.
Ltac eval_prefixb :=
  repeat match goal with
         | |- context [prefixb ?a ?b] =>
             let t := eval vm_compute in (prefixb a b) in
             match t with
             | true => change (prefixb a b) with true
             | false => change (prefixb a b) with false
             end
         end.
Ltac eval_streq_in H :=
  repeat match type of H with
         | context [String.eqb ?a ?b] =>
             let t := eval vm_compute in (String.eqb a b) in
             match t with
             | true => change (String.eqb a b) with true in H
             | false => change (String.eqb a b) with false in H
             end
         end.

(* ----------------------------------------------------------------- numbers *)
Lemma Qle_bool_total a b : Qle_bool a b = false -> Qle_bool b a = true /\ Qeq_bool a b = false.
Proof.
  intros H. assert (~ (a <= b)%Q) as N by (rewrite <- Qle_bool_iff; congruence).
  apply Qnot_le_lt in N. split.
  - apply Qle_bool_iff. apply Qlt_le_weak. exact N.
  - destruct (Qeq_bool a b) eqn:E; [|reflexivity]. apply Qeq_bool_iff in E.
    rewrite E in N. exfalso. exact (Qlt_irrefl _ N).
Qed.

Lemma Qeq_bool_le a b : Qeq_bool a b = true -> Qle_bool a b = true /\ Qle_bool b a = true.
Proof.
  intros E. apply Qeq_bool_iff in E. split; apply Qle_bool_iff; rewrite E; apply Qle_refl.
Qed.

Lemma Qle_both_eq a b : Qle_bool a b = true -> Qle_bool b a = true -> Qeq_bool a b = true.
Proof.
  intros H1 H2. apply Qeq_bool_iff. apply Qle_antisym; apply Qle_bool_iff; assumption.
Qed.

Definition rel_name (c : cmp) : string :=
  match c with
  | Eq_ => "Equals" | Lt_ => "LessThan" | Le_ => "LessThanEquals"
  | Gt_ => "GreaterThan" | Ge_ => "GreaterThanEquals" | Ne_ => "NotEquals"
  end.

Lemma cmp_Q_spec c a b : c <> Ne_ -> q_cmp (rel_name c) a b = Some (cmp_Q c a b).
Proof.
  intros N.
  assert (Qle_bool a b = true -> Qle_bool b a = true -> Qeq_bool a b = true) as H1 by apply Qle_both_eq.
  pose proof (Qeq_bool_le a b) as H2. pose proof (Qle_bool_total a b) as H3.
  destruct c; try congruence; cbn [rel_name]; unfold q_cmp; eval_streq; cbv iota zeta; cbn [cmp_Q];
    destruct (Qle_bool a b) eqn:L, (Qle_bool b a) eqn:L2, (Qeq_bool a b) eqn:E; cbn; try reflexivity; exfalso;
    try (specialize (H1 eq_refl eq_refl); discriminate);
    try (destruct (H2 eq_refl); discriminate);
    try (destruct (H3 eq_refl); discriminate).
Qed.

(* ----------------------------------------------------------------- strings *)
Lemma str_compare_lex a : forall b,
  (str_compare a b = Lt <-> lex_lt (codes_of_str a) (codes_of_str b) = true) /\
  (str_compare a b = Eq <-> a = b).
Proof.
  induction a as [|x a IH]; intros [|y b]; cbn [str_compare codes_of_str lex_lt].
  - split; split; intros; try discriminate; reflexivity.
  - split; split; intros; try discriminate; reflexivity.
  - split; split; intros; discriminate.
  - destruct (IH b) as [IHlt IHeq].
    destruct (Nat.compare_spec (nat_of_ascii x) (nat_of_ascii y)) as [E|L|G].
    + rewrite E, Nat.ltb_irrefl, Nat.eqb_refl. cbn [orb andb].
      assert (x = y) as -> by (rewrite <- (ascii_nat_embedding x), <- (ascii_nat_embedding y), E; reflexivity).
      split; [exact IHlt|]. rewrite IHeq. split; [intros ->; reflexivity|]. intros H; inversion H; reflexivity.
    + apply Nat.ltb_lt in L. rewrite L. cbn [orb]. split; [tauto|].
      split; [discriminate|]. intros H; inversion H; subst. apply Nat.ltb_lt in L. lia.
    + assert (Nat.ltb (nat_of_ascii x) (nat_of_ascii y) = false) as -> by (apply Nat.ltb_ge; lia).
      assert (Nat.eqb (nat_of_ascii x) (nat_of_ascii y) = false) as -> by (apply Nat.eqb_neq; lia).
      cbn. split; split; intros H; try discriminate. inversion H; subst. lia.
Qed.

Lemma str_compare_antisym a : forall b, str_compare a b = CompOpp (str_compare b a).
Proof.
  induction a as [|x a IH]; intros [|y b]; cbn [str_compare]; try reflexivity.
  rewrite (Nat.compare_antisym (nat_of_ascii x) (nat_of_ascii y)).
  destruct (Nat.compare (nat_of_ascii x) (nat_of_ascii y)); cbn; [apply IH|reflexivity|reflexivity].
Qed.

Lemma s_lt_compare a b : s_lt a b = match str_compare a b with Lt => true | _ => false end.
Proof.
  unfold s_lt. destruct (str_compare_lex a b) as [[H1 H2] _].
  destruct (str_compare a b) eqn:E.
  - destruct (lex_lt _ _); [|reflexivity]. specialize (H2 eq_refl). discriminate.
  - apply H1. reflexivity.
  - destruct (lex_lt _ _); [|reflexivity]. specialize (H2 eq_refl). discriminate.
Qed.

Lemma s_eq_compare a b : s_eq a b = match str_compare a b with Eq => true | _ => false end.
Proof.
  unfold s_eq. destruct (str_compare_lex a b) as [_ [H1 H2]].
  destruct (String.eqb_spec a b) as [->|N].
  - rewrite (H2 eq_refl). reflexivity.
  - destruct (str_compare a b); try reflexivity. exfalso. apply N. apply H1. reflexivity.
Qed.

(* the table-driven string comparison is the documented one *)
Lemma cmp_str_spec c a b : c <> Ne_ ->
  cmp_str c a b =
  match c with
  | Eq_ => s_eq a b | Lt_ => s_lt a b | Le_ => s_lt a b || s_eq a b
  | Gt_ => s_lt b a | Ge_ => s_lt b a || s_eq a b | Ne_ => false
  end.
Proof.
  intros N. unfold cmp_str. rewrite !s_lt_compare, !s_eq_compare, (str_compare_antisym b a).
  destruct c; try congruence; destruct (str_compare a b); reflexivity.
Qed.

(* case-insensitive equality: lower-casing both sides = folding both sides *)
Lemma forall_ascii2 (P : ascii -> ascii -> bool) :
  forallb (fun x => forallb (fun y => P (ascii_of_nat x) (ascii_of_nat y)) (seq 0 256)) (seq 0 256) = true ->
  forall x y, P x y = true.
Proof.
  intros H x y. rewrite forallb_forall in H.
  assert (In (nat_of_ascii x) (seq 0 256)) as Hx by (apply in_seq; pose proof (nat_ascii_bounded x); lia).
  assert (In (nat_of_ascii y) (seq 0 256)) as Hy by (apply in_seq; pose proof (nat_ascii_bounded y); lia).
  specialize (H _ Hx). rewrite forallb_forall in H. specialize (H _ Hy).
  rewrite !ascii_nat_embedding in H. exact H.
Qed.

Definition case_agree (x y : ascii) : bool :=
  Bool.eqb (ascii_eqb (lower_char x) (lower_char y)) (Nat.eqb (fold_case x) (fold_case y)).

Lemma case_agree_all : forall x y, case_agree x y = true.
Proof. apply forall_ascii2. vm_compute. reflexivity. Qed.

Lemma lower_fold_char x y :
  (lower_char x = lower_char y) <-> (fold_case x = fold_case y).
Proof.
  pose proof (case_agree_all x y) as H. unfold case_agree in H. apply eqb_prop in H.
  split; intros E.
  - apply Nat.eqb_eq. rewrite <- H. apply ascii_eqb_eq. exact E.
  - apply ascii_eqb_eq. rewrite H. apply Nat.eqb_eq. exact E.
Qed.

Lemma s_eq_nocase_spec a b : s_eq_nocase a b = String.eqb (py_lower a) (py_lower b).
Proof.
  unfold s_eq_nocase.
  match goal with |- (if ?d then true else false) = _ => destruct d as [E|N] end.
  - symmetry. apply String.eqb_eq. revert b E.
    induction a as [|x a IH]; intros [|y b] E; cbn in *; try discriminate; [reflexivity|].
    inversion E as [[E1 E2]]. rewrite !ascii_nat_embedding in E1.
    f_equal; [apply lower_fold_char; exact E1|apply IH; exact E2].
  - symmetry. apply String.eqb_neq. intros E. apply N. clear N. revert b E.
    induction a as [|x a IH]; intros [|y b] E; cbn in *; try discriminate; [reflexivity|].
    inversion E as [[E1 E2]]. rewrite !ascii_nat_embedding.
    f_equal; [apply lower_fold_char; exact E1|apply IH; exact E2].
Qed.

(* --------------------------------------------- model handlers vs specification *)
Definition eval_named (name : string) (v : var) (c : json) : option bool :=
  match table_get choice_table name with
  | Some (KSpecial _) => eval_special name v c
  | Some k => eval_kind k v c
  | None => Some false
  end.

Definition var_opt (v : var) : option json := match v with VMissing => None | VVal j => Some j end.

(* the environment gives every timestamp text its instant, and only timestamps are in it *)
Definition ts_known (e : tsenv) (j : json) : Prop :=
  match j with
  | JStr s => match ts_lookup e s with
              | Some m => parse_rfc3339 s = TsOk m
              | None => parse_rfc3339 s = TsBad
              end
  | _ => True
  end.

Ltac eval_closed :=
  repeat match goal with
         | |- context [table_get choice_table ?n] =>
             let t := eval vm_compute in (table_get choice_table n) in change (table_get choice_table n) with t
         | |- context [strip_prefix ?a ?b] =>
             let t := eval vm_compute in (strip_prefix a b) in change (strip_prefix a b) with t
         end.

Lemma q_cmp_Z rel x y c : c <> Ne_ -> rel = rel_name c ->
  q_cmp rel (inject_Z x) (inject_Z y) = Some (cmp_Z c x y).
Proof.
  intros N ->. rewrite cmp_Q_spec by exact N. f_equal.
  assert (Qle_bool (inject_Z x) (inject_Z y) = Z.leb x y) as L1.
  { unfold Qle_bool, inject_Z. cbn. rewrite !Z.mul_1_r. reflexivity. }
  assert (Qle_bool (inject_Z y) (inject_Z x) = Z.leb y x) as L2.
  { unfold Qle_bool, inject_Z. cbn. rewrite !Z.mul_1_r. reflexivity. }
  assert (Qeq_bool (inject_Z x) (inject_Z y) = Z.eqb x y) as L3.
  { unfold Qeq_bool, inject_Z. cbn. rewrite !Z.mul_1_r. destruct (Z.eqb_spec x y), (Zeq_bool x y) eqn:E; try reflexivity.
    - apply Zeq_bool_neq in E. contradiction.
    - apply Zeq_bool_eq in E. contradiction. }
  destruct c; try congruence; cbn [cmp_Q cmp_Z]; rewrite ?L1, ?L2, ?L3;
    destruct (Z.leb_spec x y), (Z.leb_spec y x), (Z.eqb_spec x y), (Z.ltb_spec x y), (Z.ltb_spec y x); cbn; try reflexivity; lia.
Qed.

Ltac solve_op :=
  intros e v c b He; unfold eval_named; eval_closed; unfold sem_op; eval_closed; cbv iota beta;
  destruct v as [|x]; [|destruct x]; destruct c; cbn -[q_cmp cmp_Q cmp_str star_match string_matches s_eq_nocase py_lower parse_rfc3339 ts_lookup Qeq_bool inject_Z];
  intros H; try discriminate H; try (inversion H; subst; reflexivity); try exact H.

(* numbers: both operands must be numbers (not booleans), compared as rationals *)
Lemma num_ops_spec c : c <> Ne_ ->
  forall e v k b, sem_op e ("Numeric" ++ rel_name c) (var_opt v) k = Some b ->
                  eval_kind (KNum c) v k = Some b.
Proof.
  intros N e v k b. unfold sem_op.
  replace (strip_prefix "Numeric" ("Numeric" ++ rel_name c)) with (Some (rel_name c)) by (destruct c; reflexivity).
  destruct v as [|x]; cbn [var_opt eval_kind var_json].
  - intros H; inversion H; subst. reflexivity.
  - unfold Choice.isnumber, is_num.
    destruct x, k; cbn [andb num_of]; intros H; try (inversion H; subst; reflexivity);
      rewrite cmp_Q_spec in H by exact N; exact H.
Qed.

(* strings: both operands must be strings, compared by code point *)
Lemma str_ops_spec c : c <> Ne_ ->
  forall e v k b, sem_op e ("String" ++ rel_name c) (var_opt v) k = Some b ->
                  eval_kind (KCmp c TStr) v k = Some b.
Proof.
  intros N e v k b. unfold sem_op.
  replace (strip_prefix "Numeric" ("String" ++ rel_name c)) with (@None string) by (destruct c; reflexivity).
  replace (strip_prefix "Timestamp" ("String" ++ rel_name c)) with (@None string) by (destruct c; reflexivity).
  replace (String.eqb ("String" ++ rel_name c) "StringMatches") with false by (destruct c; reflexivity).
  replace (String.eqb ("String" ++ rel_name c) "CaseInsensitiveStringEquals") with false by (destruct c; reflexivity).
  replace (strip_prefix "String" ("String" ++ rel_name c)) with (Some (rel_name c)) by (destruct c; reflexivity).
  destruct v as [|x]; cbn [var_opt eval_kind var_json].
  - intros H; inversion H; subst. reflexivity.
  - destruct x, k; intros H; try (inversion H; subst; reflexivity).
    rewrite (cmp_str_spec c s s0 N).
    destruct c; try congruence; cbn [rel_name] in H; eval_streq_in H; cbv iota in H; exact H.
Qed.

Lemma bool_eq_spec e v k b :
  sem_op e "BooleanEquals" (var_opt v) k = Some b -> eval_kind (KGuard (KCmp Eq_ TBool)) v k = Some b.
Proof.
  unfold sem_op. eval_closed. eval_streq. cbv iota.
  destruct v as [|x]; cbn [var_opt eval_kind var_json var_failed].
  - intros H; inversion H; subst. reflexivity.
  - destruct x, k; intros H; try (inversion H; subst; reflexivity).
    inversion H; subst. cbn. destruct b0, b1; reflexivity.
Qed.

Lemma nocase_spec e v k b :
  sem_op e "CaseInsensitiveStringEquals" (var_opt v) k = Some b -> eval_kind (KCmpLower Eq_) v k = Some b.
Proof.
  unfold sem_op. eval_closed. eval_streq. cbv iota.
  destruct v as [|x]; cbn [var_opt eval_kind var_json].
  - intros H; inversion H; subst. reflexivity.
  - destruct x, k; intros H; try (inversion H; subst; reflexivity).
    inversion H; subst. rewrite s_eq_nocase_spec. unfold cmp_str.
    destruct (str_compare_lex (py_lower s) (py_lower s0)) as [_ [H1 H2]].
    destruct (String.eqb_spec (py_lower s) (py_lower s0)) as [E|NE].
    + rewrite (H2 E). reflexivity.
    + destruct (str_compare (py_lower s) (py_lower s0)) eqn:C; try reflexivity.
      exfalso. apply NE. apply H1. reflexivity.
Qed.

(* timestamps: compared by instant, whatever the offset notation *)
Lemma ts_of_known e j : ts_known e j -> ts_of j <> TsOut.
Proof.
  destruct j; cbn [ts_known ts_of]; try discriminate.
  destruct (ts_lookup e s); intros ->; discriminate.
Qed.

Lemma ts_ops_spec c : c <> Ne_ ->
  forall e v k b, ts_known e (var_json v) -> ts_known e k ->
    sem_op e ("Timestamp" ++ rel_name c) (var_opt v) k = Some b ->
    eval_kind (KTs c) v k = Some b.
Proof.
  intros N e v k b Hv Hk. unfold sem_op.
  replace (strip_prefix "Numeric" ("Timestamp" ++ rel_name c)) with (@None string) by (destruct c; reflexivity).
  replace (strip_prefix "Timestamp" ("Timestamp" ++ rel_name c)) with (Some (rel_name c)) by (destruct c; reflexivity).
  pose proof (ts_of_known _ _ Hk) as Hk'.
  destruct v as [|x]; cbn [var_opt eval_kind var_json ts_of] in *.
  - intros H; inversion H; subst. destruct (ts_of k); congruence.
  - destruct x as [| | | |sa| |]; cbv iota beta; try (intros H; inversion H; subst; cbn [ts_of]; destruct (ts_of k); congruence).
    pose proof (ts_of_known _ _ Hv) as Hv'. cbn [ts_of] in Hv'.
    destruct k as [| | | |sb| |]; cbv iota beta; try (intros H; inversion H; subst; cbn [ts_of]; destruct (parse_rfc3339 sa); congruence).
    cbn [ts_of ts_known] in *.
    destruct (ts_lookup e sa) as [x|], (ts_lookup e sb) as [y|]; rewrite Hv, Hk; intros H.
    + rewrite (q_cmp_Z _ x y c N eq_refl) in H. exact H.
    + inversion H; reflexivity.
    + inversion H; reflexivity.
    + inversion H; reflexivity.
Qed.

(* type tests on a value that exists, and IsPresent *)
Lemma py_eq_bool_bool a b : py_eq_bool a (JBool b) = Bool.eqb a b.
Proof. destruct a, b; reflexivity. Qed.

Lemma is_ops_spec name :
  In name ["IsNull"; "IsNumeric"; "IsString"; "IsBoolean"; "IsPresent"] ->
  forall e v k b, sem_op e name (var_opt v) k = Some b -> eval_special name v k = Some b.
Proof.
  intros Hn e v k b.
  repeat (destruct Hn as [<-|Hn]); try contradiction;
    unfold sem_op, eval_special; eval_closed; eval_streq; cbv iota;
    (destruct v as [|x]; [|destruct x]); destruct k; cbn [var_opt var_json var_failed is_null Choice.isnumber is_num negb andb];
    intros H; try discriminate H; rewrite ?py_eq_bool_bool; try exact H;
    try (inversion H; subst; destruct b0; reflexivity).
  all: inversion H; subst; repeat match goal with x : bool |- _ => destruct x end; reflexivity.
Qed.

Lemma is_timestamp_spec e v k b : ts_known e (var_json v) ->
  sem_op e "IsTimestamp" (var_opt v) k = Some b -> eval_special "IsTimestamp" v k = Some b.
Proof.
  intros He. unfold sem_op, eval_special. eval_closed. eval_streq. cbv iota.
  destruct v as [|x]; cbn [var_opt var_json]; [discriminate|].
  rename b into res. destruct k as [|kb| | | | |]; try discriminate.
  destruct x as [| | | |sa| |]; cbn [ts_of truthy]; intros H; inversion H; subst; try (destruct kb; reflexivity).
  cbn [ts_known var_json] in He. destruct (ts_lookup e sa); rewrite He; destruct kb; reflexivity.
Qed.

(* a missing Variable never satisfies a value comparison *)
Definition value_ops : list string :=
  ["BooleanEquals"; "NumericEquals"; "NumericGreaterThan"; "NumericGreaterThanEquals"; "NumericLessThan";
   "NumericLessThanEquals"; "StringEquals"; "CaseInsensitiveStringEquals"; "StringGreaterThan";
   "StringGreaterThanEquals"; "StringLessThan"; "StringLessThanEquals"; "StringMatches"; "TimestampEquals";
   "TimestampGreaterThan"; "TimestampGreaterThanEquals"; "TimestampLessThan"; "TimestampLessThanEquals"].

Lemma missing_never_matches name k :
  In name value_ops -> eval_named name VMissing k <> Some true.
Proof.
  intros Hn. unfold value_ops in Hn.
  repeat (destruct Hn as [<-|Hn]); try contradiction; unfold eval_named; eval_closed;
    cbn [eval_kind var_json var_failed Choice.isnumber andb ts_of eval_special];
    try discriminate; try (destruct (ts_of k); discriminate).
Qed.

(* a value of the wrong type never satisfies a value comparison *)
Definition right_type (name : string) (x : json) : bool :=
  if prefixb "Numeric" name then is_num x
  else if prefixb "Boolean" name then match x with JBool _ => true | _ => false end
  else match x with JStr _ => true | _ => false end.

Lemma wrong_type_never_matches name x k :
  In name value_ops -> right_type name x = false -> eval_named name (VVal x) k <> Some true.
Proof.
  intros Hn. unfold value_ops in Hn.
  repeat (destruct Hn as [<-|Hn]); try contradiction; unfold eval_named, right_type; eval_closed;
    eval_prefixb; cbv iota; intros Ht;
    destruct x; try discriminate Ht;
    cbn [eval_kind var_json var_failed Choice.isnumber andb ts_of eval_special];
    try discriminate; try (destruct k; discriminate); try (destruct (ts_of k); discriminate);
    try (eval_streq; cbv iota; discriminate).
Qed.

(* ------------------------------------------------------------ And / Or / Not *)
Definition matches (input ctx : json) (r : json) : bool :=
  match choose input ctx r with CNext _ => true | _ => false end.

(* the sub-rule evaluated normally: matched or not (no escaping exception, inside the model) *)
Definition clean (input ctx : json) (r : json) : Prop :=
  match choose input ctx r with CNext _ | CNo => True | _ => False end.

Lemma and_is_forallb input ctx rs :
  Forall (clean input ctx) rs ->
  matches input ctx (JObj [("And", JArr rs)]) = forallb (matches input ctx) rs.
Proof.
  intros Hc. unfold matches at 1. cbn [choose lookup_variable obj_get String.eqb Ascii.eqb Bool.eqb truthy].
  induction Hc as [|r rs Hr Hrs IH]; [reflexivity|].
  cbn [forallb]. unfold clean in Hr. unfold matches at 1.
  destruct (choose input ctx r); try contradiction; cbn [andb].
  - exact IH.
  - reflexivity.
Qed.

Lemma or_is_existsb input ctx rs :
  Forall (clean input ctx) rs ->
  matches input ctx (JObj [("Or", JArr rs)]) = existsb (matches input ctx) rs.
Proof.
  intros Hc. unfold matches at 1. cbn [choose lookup_variable obj_get String.eqb Ascii.eqb Bool.eqb truthy].
  induction Hc as [|r rs Hr Hrs IH]; [reflexivity|].
  cbn [existsb]. unfold clean in Hr. unfold matches at 1.
  destruct (choose input ctx r); try contradiction; cbn [orb].
  - reflexivity.
  - exact IH.
Qed.

Lemma not_is_negb input ctx r :
  clean input ctx r ->
  matches input ctx (JObj [("Not", r)]) = negb (matches input ctx r).
Proof.
  intros Hc. unfold matches, clean in *.
  cbn [choose lookup_variable obj_get String.eqb Ascii.eqb Bool.eqb truthy].
  destruct (choose input ctx r); try contradiction; reflexivity.
Qed.

(* ... and a connective that evaluates normally is itself clean, so the laws nest to any depth *)
Lemma connectives_clean input ctx rs r :
  Forall (clean input ctx) rs -> clean input ctx r ->
  clean input ctx (JObj [("And", JArr rs)]) /\ clean input ctx (JObj [("Or", JArr rs)]) /\
  clean input ctx (JObj [("Not", r)]).
Proof.
  intros Hrs Hr. unfold clean.
  cbn [choose lookup_variable obj_get String.eqb Ascii.eqb Bool.eqb truthy].
  repeat split.
  - induction Hrs as [|x xs Hx Hxs IH]; [exact I|]. unfold clean in Hx.
    destruct (choose input ctx x); try contradiction; [exact IH|exact I].
  - induction Hrs as [|x xs Hx Hxs IH]; [exact I|]. unfold clean in Hx.
    destruct (choose input ctx x); try contradiction; [exact I|exact IH].
  - unfold clean in Hr. destruct (choose input ctx r); try contradiction; exact I.
Qed.

(* --------------------------------------------------------- first match wins *)
Lemma first_match_wins input ctx pre r post n :
  Forall (fun x => choose input ctx x = CNo) pre ->
  choose input ctx r = CNext n ->
  first_choice input ctx (pre ++ r :: post) = CNext n.
Proof.
  intros Hpre Hr. induction Hpre as [|x pre Hx Hp IH]; cbn [app first_choice].
  - rewrite Hr. reflexivity.
  - rewrite Hx. exact IH.
Qed.

Lemma no_match_is_none input ctx rules :
  Forall (fun x => choose input ctx x = CNo) rules -> first_choice input ctx rules = CNo.
Proof.
  intros H. induction H as [|x l Hx Hl IH]; cbn [first_choice]; [reflexivity|]. rewrite Hx. exact IH.
Qed.

(* the Choice state with default paths: first matching rule, else Default, else NoChoiceMatched *)
Lemma choice_state_default_paths st data ctx c cs :
  obj_get st "InputPath" = None -> obj_get st "OutputPath" = None ->
  is_null data = false ->
  obj_get st "Choices" = Some (JArr (c :: cs)) ->
  choice_state st data ctx =
  match first_choice data ctx (c :: cs) with
  | COut => ChOut
  | CRaise => ChFail "States.Runtime"
  | CNext n => ChNext n data
  | CNo => match obj_get st "Default" with
           | Some d => if truthy d then ChNext d data else ChFail "States.NoChoiceMatched"
           | None => ChFail "States.NoChoiceMatched"
           end
  end.
Proof.
  intros Hi Ho Hn Hc. unfold choice_state, opt_path. rewrite Hi, Ho, Hc.
  unfold apply_path_m, apply_jsonpath_m. rewrite Hn. cbn [String.eqb Ascii.eqb Bool.eqb].
  destruct (first_choice data ctx (c :: cs)); rewrite ?Hn; try reflexivity.
  destruct (obj_get st "Default") as [d|]; [|reflexivity]. destruct (truthy d); reflexivity.
Qed.

(* ------------------------------------------------------------ StringMatches *)
Inductive Matches : list gtok -> string -> Prop :=
| M_nil : Matches [] ""
| M_lit a t s : Matches t s -> Matches (GLit a :: t) (String a s)
| M_star t s1 s2 : Matches t s2 -> Matches (GStar :: t) (s1 ++ s2).

Lemma glob_match_sound toks : forall s, glob_match toks s = true -> Matches toks s.
Proof.
  induction toks as [|[a|] t IH]; intros s H.
  - destruct s; [constructor|discriminate].
  - destruct s as [|b s]; [discriminate|]. cbn [glob_match] in H.
    apply andb_true_iff in H as [H1 H2]. apply ascii_eqb_eq in H1. subst. constructor. apply IH. exact H2.
  - cbn [glob_match] in H. induction s as [|b s IHs].
    + apply orb_true_iff in H as [H|H]; [|discriminate]. apply (M_star t "" ""). apply IH. exact H.
    + apply orb_true_iff in H as [H|H].
      * apply (M_star t "" (String b s)). apply IH. exact H.
      * specialize (IHs H). inversion IHs as [| |t' s1 s2 Hm]; subst.
        apply (M_star t (String b s1) s2). exact Hm.
Qed.

Lemma glob_match_complete toks s : Matches toks s -> glob_match toks s = true.
Proof.
  induction 1 as [|a t s Hm IH|t s1 s2 Hm IH].
  - reflexivity.
  - cbn [glob_match]. rewrite ascii_eqb_refl, IH. reflexivity.
  - cbn [glob_match]. induction s1 as [|b s1 IHs]; cbn [append].
    + destruct s2; rewrite IH; reflexivity.
    + rewrite IHs. apply orb_true_r.
Qed.

Theorem glob_match_iff toks s : glob_match toks s = true <-> Matches toks s.
Proof. split; [apply glob_match_sound|apply glob_match_complete]. Qed.

(* a pattern without '*' matches exactly itself: no other character is special *)
Fixpoint lits (s : string) : list gtok :=
  match s with EmptyString => [] | String a r => GLit a :: lits r end.

Lemma glob_tokens_no_star p : has_char star_char p = false -> glob_tokens p = lits p.
Proof.
  induction p as [|a p IH]; [reflexivity|]. cbn [has_char]. intros H.
  apply orb_false_iff in H as [Ha Hp]. specialize (IH Hp).
  cbn [glob_tokens lits]. rewrite Ha.
  destruct (ascii_eqb a backslash_char); [|rewrite IH; reflexivity].
  destruct p as [|b p]; [reflexivity|].
  cbn [has_char] in Hp. apply orb_false_iff in Hp as [Hb _]. rewrite Hb. rewrite IH. reflexivity.
Qed.

Lemma glob_lits p s : glob_match (lits p) s = String.eqb p s.
Proof.
  revert s. induction p as [|a p IH]; intros [|b s]; cbn [lits glob_match String.eqb]; try reflexivity.
  rewrite IH. reflexivity.
Qed.

Theorem no_star_is_equality p s : has_char star_char p = false -> string_matches p s = String.eqb p s.
Proof. intros H. unfold string_matches. rewrite (glob_tokens_no_star _ H). apply glob_lits. Qed.
