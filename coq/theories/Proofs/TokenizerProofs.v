(* The argument scanner of intrinsic calls (C13): arguments rendered from the grammar
   - plain atoms, apostrophe-delimited strings with backslash escapes (so commas,
   parentheses and escaped apostrophes inside them are inert), and calls nested to any
   depth - are split back into exactly the arguments that were rendered. *)
From LSF Require Import PyStr Json PathSpec Paths Template.
Open Scope string_scope.

Definition plain (c : ascii) : bool :=
  negb (ascii_eqb c quote_char || ascii_eqb c "," || ascii_eqb c "(" || ascii_eqb c ")").

(* units of a string body: an ordinary character, or a backslash and the character it escapes *)
Inductive sunit := SChar (c : ascii) | SEsc (c : ascii).
Definition sunit_ok (u : sunit) : bool :=
  match u with SChar c => negb (ascii_eqb c quote_char || ascii_eqb c bslash) | SEsc _ => true end.
Definition render_unit (u : sunit) : string :=
  match u with SChar c => String c "" | SEsc c => String bslash (String c "") end.
Fixpoint render_body (b : list sunit) : string :=
  match b with [] => "" | u :: r => render_unit u ++ render_body r end.

Inductive arg :=
| AAtom (s : string)                      (* number, null, true, false, a path *)
| AStr (body : list sunit)                (* 'text' *)
| ACall (name : string) (args : list arg). (* States.Name(arg, arg, ...) *)

Fixpoint join_commas (l : list string) : string :=
  match l with
  | [] => ""
  | [x] => x
  | x :: r => x ++ String "," (String " " (join_commas r))
  end.

Fixpoint render_arg (a : arg) : string :=
  match a with
  | AAtom s => s
  | AStr b => String quote_char (render_body b ++ String quote_char "")
  | ACall n args => n ++ String "(" (join_commas (map render_arg args) ++ String ")" "")
  end.

Definition not_space_ends (s : string) : Prop := strip s = s.

Fixpoint arg_ok (a : arg) : Prop :=
  match a with
  | AAtom s => forall_char plain s = true /\ s <> "" /\ not_space_ends s
  | AStr b => forallb sunit_ok b = true
  | ACall n args => forall_char plain n = true /\ n <> "" /\ not_space_ends n /\
                    (fix all (l : list arg) : Prop := match l with [] => True | x :: r => arg_ok x /\ all r end) args
  end.

(* a text passes through the scanner at any depth without splitting and without changing the state *)
Definition passes (t : string) : Prop :=
  forall rest cur depth acc, scan_args (t ++ rest) cur depth false acc = scan_args rest (cur ++ t) depth false acc.
(* ... at positive depth (commas allowed) *)
Definition passes_inner (t : string) : Prop :=
  forall rest cur depth acc, (0 < depth)%Z -> scan_args (t ++ rest) cur depth false acc = scan_args rest (cur ++ t) depth false acc.

Lemma passes_nil : passes "".
Proof. intros rest cur depth acc. cbn [append]. rewrite append_nil_r. reflexivity. Qed.

Lemma passes_app a b : passes a -> passes b -> passes (a ++ b).
Proof. intros Ha Hb rest cur depth acc. rewrite append_assoc, Ha, Hb, append_assoc. reflexivity. Qed.

Lemma inner_app a b : passes_inner a -> passes_inner b -> passes_inner (a ++ b).
Proof. intros Ha Hb rest cur depth acc Hd. rewrite append_assoc, Ha, Hb, append_assoc by assumption. reflexivity. Qed.

Lemma passes_is_inner a : passes a -> passes_inner a.
Proof. intros H rest cur depth acc _. apply H. Qed.

Lemma plain_char_passes c : plain c = true -> passes (String c "").
Proof.
  intros H rest cur depth acc. unfold plain in H. apply negb_true_iff in H.
  apply orb_false_iff in H as [H H4]. apply orb_false_iff in H as [H H3]. apply orb_false_iff in H as [H1 H2].
  cbn [append scan_args]. rewrite H1, H2, H3, H4. cbn [andb]. reflexivity.
Qed.

Lemma plain_passes s : forall_char plain s = true -> passes s.
Proof.
  induction s as [|c s IH]; cbn [forall_char]; intros H; [apply passes_nil|].
  apply andb_true_iff in H as [Hc Hs].
  change (String c s) with (String c "" ++ s). apply passes_app; [apply plain_char_passes; exact Hc|apply IH; exact Hs].
Qed.

(* inside a string nothing is special except the closing apostrophe and the backslash *)
Lemma body_in_string b : forallb sunit_ok b = true ->
  forall rest cur depth acc,
    scan_args (render_body b ++ rest) cur depth true acc = scan_args rest (cur ++ render_body b) depth true acc.
Proof.
  induction b as [|u b IH]; cbn [forallb render_body]; intros H rest cur depth acc.
  - cbn [append]. rewrite append_nil_r. reflexivity.
  - apply andb_true_iff in H as [Hu Hb]. rewrite append_assoc.
    destruct u as [c|c]; cbn [render_unit append scan_args].
    + cbn [sunit_ok] in Hu. apply negb_true_iff in Hu. apply orb_false_iff in Hu as [H1 H2].
      rewrite H2, H1. cbn [negb]. rewrite (IH Hb), append_assoc. reflexivity.
    + replace (ascii_eqb bslash bslash) with true by reflexivity.
      rewrite (IH Hb), append_assoc. reflexivity.
Qed.

Lemma string_literal_passes b : forallb sunit_ok b = true ->
  passes (String quote_char (render_body b ++ String quote_char "")).
Proof.
  intros Hb rest cur depth acc. cbn [append scan_args].
  replace (ascii_eqb quote_char quote_char) with true by reflexivity.
  rewrite append_assoc, (body_in_string b Hb). cbn [append scan_args].
  replace (ascii_eqb quote_char bslash) with false by reflexivity.
  replace (ascii_eqb quote_char quote_char) with true by reflexivity. cbn [negb].
  rewrite !append_assoc. reflexivity.
Qed.

Lemma comma_space_inner : passes_inner (String "," (String " " "")).
Proof.
  intros rest cur depth acc Hd. cbn [append scan_args].
  replace (ascii_eqb "," quote_char) with false by reflexivity.
  replace (ascii_eqb "," ",") with true by reflexivity.
  destruct (Z.eqb_spec depth 0); [lia|]. cbn [andb].
  replace (ascii_eqb "," "(") with false by reflexivity.
  replace (ascii_eqb "," ")") with false by reflexivity.
  replace (ascii_eqb " " quote_char) with false by reflexivity.
  replace (ascii_eqb " " ",") with false by reflexivity. cbn [andb].
  replace (ascii_eqb " " "(") with false by reflexivity.
  replace (ascii_eqb " " ")") with false by reflexivity.
  rewrite !append_assoc. reflexivity.
Qed.

(* a parenthesised group whose inside passes at positive depth passes at any depth >= 0 *)
Lemma group_passes t : passes_inner t ->
  forall rest cur depth acc, (0 <= depth)%Z ->
    scan_args (String "(" (t ++ String ")" "") ++ rest) cur depth false acc
    = scan_args rest (cur ++ String "(" (t ++ String ")" "")) depth false acc.
Proof.
  intros Ht rest cur depth acc Hd. cbn [append scan_args].
  replace (ascii_eqb "(" quote_char) with false by reflexivity.
  replace (ascii_eqb "(" ",") with false by reflexivity. cbn [andb].
  replace (ascii_eqb "(" "(") with true by reflexivity.
  rewrite append_assoc, Ht by lia. cbn [append scan_args].
  replace (ascii_eqb ")" quote_char) with false by reflexivity.
  replace (ascii_eqb ")" ",") with false by reflexivity. cbn [andb].
  replace (ascii_eqb ")" "(") with false by reflexivity.
  replace (ascii_eqb ")" ")") with true by reflexivity.
  replace (depth + 1 - 1)%Z with depth by lia. rewrite !append_assoc. reflexivity.
Qed.

Definition passes_nonneg (t : string) : Prop :=
  forall rest cur depth acc, (0 <= depth)%Z ->
    scan_args (t ++ rest) cur depth false acc = scan_args rest (cur ++ t) depth false acc.

Lemma nonneg_app a b : passes_nonneg a -> passes_nonneg b -> passes_nonneg (a ++ b).
Proof. intros Ha Hb rest cur depth acc Hd. rewrite append_assoc, Ha, Hb, append_assoc by assumption. reflexivity. Qed.

Lemma nonneg_is_inner a : passes_nonneg a -> passes_inner a.
Proof. intros H rest cur depth acc Hd. apply H. lia. Qed.

Lemma joined_inner l : Forall passes_nonneg l -> passes_inner (join_commas l).
Proof.
  induction 1 as [|x l Hx Hl IH]; [apply passes_is_inner, passes_nil|].
  destruct l as [|y l]; [cbn [join_commas]; apply nonneg_is_inner; exact Hx|].
  change (join_commas (x :: y :: l)) with (x ++ (String "," (String " " "") ++ join_commas (y :: l))).
  apply inner_app; [apply nonneg_is_inner; exact Hx|].
  apply inner_app; [apply comma_space_inner|exact IH].
Qed.

(* every well-formed argument, however deeply nested, goes through the scanner as one piece *)
Theorem arg_passes : forall a, arg_ok a -> passes_nonneg (render_arg a).
Proof.
  fix IH 1. intros [s|b|n args]; cbn [arg_ok render_arg].
  - intros (Hp & _ & _) rest cur depth acc _. apply plain_passes. exact Hp.
  - intros Hb rest cur depth acc _. apply string_literal_passes. exact Hb.
  - intros (Hn & _ & _ & Hargs).
    apply nonneg_app; [intros rest cur depth acc _; apply plain_passes; exact Hn|].
    intros rest cur depth acc Hd. apply group_passes; [|exact Hd].
    apply joined_inner. induction args as [|x args IHa]; [constructor|].
    destruct Hargs as [Hx Hr]. constructor; [apply IH; exact Hx|apply IHa; exact Hr].
Qed.

(* the top level: a comma at depth 0 closes the current argument *)
Lemma top_comma rest cur acc :
  scan_args (String "," (String " " rest)) cur 0%Z false acc = scan_args rest " " 0%Z false (acc ++ [strip cur]).
Proof.
  cbn [scan_args].
  replace (ascii_eqb "," quote_char) with false by reflexivity.
  replace (ascii_eqb "," ",") with true by reflexivity. cbn [Z.eqb andb].
  replace (ascii_eqb " " quote_char) with false by reflexivity.
  replace (ascii_eqb " " ",") with false by reflexivity. cbn [andb].
  replace (ascii_eqb " " "(") with false by reflexivity.
  replace (ascii_eqb " " ")") with false by reflexivity. reflexivity.
Qed.

Lemma strip_space_prefix t : not_space_ends t -> t <> "" -> strip (String " " t) = t.
Proof.
  unfold not_space_ends, strip. intros H Hne. cbn [lstrip]. replace (is_py_space " ") with true by reflexivity. exact H.
Qed.

Definition top_ok (a : arg) : Prop :=
  arg_ok a /\ not_space_ends (render_arg a) /\ render_arg a <> "".

Theorem split_rendered_args : forall args, args <> [] -> Forall top_ok args ->
  split_args (join_commas (map render_arg args)) = Some (map render_arg args).
Proof.
  intros args Hne Hok. unfold split_args.
  (* generalise: a leading blank in cur, and arguments already collected *)
  assert (forall args, args <> [] -> Forall top_ok args ->
          forall cur acc, (cur = "" \/ cur = " ") ->
            scan_args (join_commas (map render_arg args)) cur 0%Z false acc = Some (acc ++ map render_arg args)%list) as G.
  { clear. induction args as [|a args IH]; [congruence|]. intros _ Hok cur acc Hcur.
    apply Forall_cons_iff in Hok as [(Ha & Hs & Hn) Hrest].
    assert (strip (cur ++ render_arg a) = render_arg a) as Hstrip.
    { destruct Hcur as [-> | ->]; [exact Hs|]. apply strip_space_prefix; assumption. }
    destruct args as [|b args].
    - cbn [map join_commas]. rewrite <- (append_nil_r (render_arg a)) at 1.
      rewrite (arg_passes a Ha "" cur 0%Z acc) by lia. cbn [scan_args orb negb Z.eqb].
      rewrite Hstrip. destruct (String.eqb_spec (render_arg a) ""); [contradiction|].
      rewrite orb_true_r. reflexivity.
    - cbn [map].
      change (join_commas (render_arg a :: render_arg b :: map render_arg args))
        with (render_arg a ++ String "," (String " " (join_commas (map render_arg (b :: args))))).
      rewrite (arg_passes a Ha _ cur 0%Z acc) by lia.
      rewrite top_comma, Hstrip.
      rewrite (IH ltac:(discriminate) Hrest " " (acc ++ [render_arg a])%list (or_intror eq_refl)).
      rewrite <- app_assoc. reflexivity. }
  rewrite (G args Hne Hok "" [] (or_introl eq_refl)). reflexivity.
Qed.

Example nested_example :
  let a := ACall "States.Array" [ACall "States.Array" [ACall "States.Array" [AAtom "1"]];
                                 AStr [SChar "a"; SChar ","; SChar "("; SEsc quote_char; SChar ")"]; AAtom "$.x"] in
  top_ok a /\ split_args (join_commas (map render_arg [a; AAtom "2"])) = Some [render_arg a; "2"].
Proof. split; [repeat split; try reflexivity; discriminate | vm_compute; reflexivity]. Qed.
