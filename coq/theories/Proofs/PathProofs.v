(* Laws of the path filters (C12). *)
From LSF Require Import PyStr Json GenTypes Paths_gen PathSpec Paths.
Open Scope string_scope.

Definition tok_ok (t : string) : bool :=
  match py_int t with None => true | Some _ => all_digits t end.

Lemma py_int_digits t : all_digits t = true -> py_int t = Some (Z.of_N (digits_val t)).
Proof. unfold py_int. intros ->. reflexivity. Qed.

Lemma py_index_some len i n : py_index len i = Some n -> n < len /\ ((0 <= i)%Z -> n = Z.to_nat i).
Proof.
  unfold py_index. destruct (Z.ltb_spec i 0) as [Hi|Hi].
  - destruct (Z.ltb_spec (i + Z.of_nat len) 0); [discriminate|].
    destruct (Z.ltb_spec (i + Z.of_nat len) (Z.of_nat len)); [|discriminate].
    intros E; inversion E; subst. split; lia.
  - destruct (Z.ltb_spec i 0); [lia|]. destruct (Z.ltb_spec i (Z.of_nat len)); [|discriminate].
    intros E; inversion E; subst. split; [lia|reflexivity].
Qed.

Lemma rbind_ok {A B} (m : result A) (f : A -> result B) b :
  rbind m f = Ok b -> exists a, m = Ok a /\ f a = Ok b.
Proof. destruct m; cbn; intros H; [eauto|discriminate]. Qed.

(* what a successful one-level update looks like *)
Lemma update_path_cons j t rest r j' :
  update_path j (t :: rest) r = Ok j' ->
  (exists l i n old v, j = JArr l /\ py_int t = Some i /\ py_index (length l) i = Some n /\
      nth_error l n = Some old /\ update_path old rest r = Ok v /\ j' = JArr (list_set l n v))
  \/
  (exists kv v, j = JObj kv /\ py_int t = None /\
      update_path (match obj_get kv t with Some o => o | None => JObj [] end) rest r = Ok v /\
      j' = JObj (obj_set kv t v)).
Proof.
  cbn [update_path]. destruct j; try discriminate.
  - destruct (py_int t) as [i|] eqn:Ei; [|discriminate].
    destruct (py_index (length l) i) as [n|] eqn:En; [|discriminate].
    destruct (nth_error l n) as [old|] eqn:Eo; [|discriminate].
    intros H. apply rbind_ok in H as (v & Hv & Hj). inversion Hj; subst.
    left. exists l, i, n, old, v. repeat split; assumption.
  - destruct (py_int t) eqn:Ei; [discriminate|].
    intros H. apply rbind_ok in H as (v & Hv & Hj). inversion Hj; subst.
    right. exists kv, v. repeat split; assumption.
Qed.

Lemma arr_index_digits t (l : list json) i n :
  tok_ok t = true -> py_int t = Some i -> py_index (length l) i = Some n ->
  all_digits t = true /\ n = N.to_nat (digits_val t) /\ n < length l.
Proof.
  unfold tok_ok. intros Hok Hi Hn. rewrite Hi in Hok. split; [exact Hok|].
  rewrite (py_int_digits _ Hok) in Hi. inversion Hi; subst.
  apply py_index_some in Hn as [Hlt Heq]. split; [|exact Hlt].
  rewrite Heq by lia. lia.
Qed.

Theorem put_get_tokens : forall toks j r j',
  forallb tok_ok toks = true -> update_path j toks r = Ok j' -> select_tokens j' toks = Some r.
Proof.
  induction toks as [|t rest IH]; intros j r j' Hok H.
  - cbn in *. inversion H. reflexivity.
  - cbn [forallb] in Hok. apply andb_true_iff in Hok as [Ht Hrest].
    apply update_path_cons in H as [(l & i & n & old & v & -> & Hi & Hn & Ho & Hv & ->)|(kv & v & -> & Hi & Hv & ->)].
    + destruct (arr_index_digits _ _ _ _ Ht Hi Hn) as (Hd & -> & Hlt).
      cbn [select_tokens]. rewrite Hd, nth_list_set_same by assumption. eapply IH; eassumption.
    + cbn [select_tokens]. rewrite obj_get_set_same. eapply IH; eassumption.
Qed.

Lemma select_empty_obj q : q <> [] -> select_tokens (JObj []) q = None.
Proof. destruct q; [congruence|reflexivity]. Qed.

Lemma tok_same_refl t : tok_same t t = true.
Proof. unfold tok_same. rewrite String.eqb_refl. reflexivity. Qed.

Theorem put_frame_tokens : forall toks j r j' q,
  forallb tok_ok toks = true -> update_path j toks r = Ok j' ->
  comparable toks q = false -> select_tokens j' q = select_tokens j q.
Proof.
  induction toks as [|t rest IH]; intros j r j' q Hok H Hc; [discriminate|].
  destruct q as [|b q']; [discriminate|].
  cbn [forallb] in Hok. apply andb_true_iff in Hok as [Ht Hrest].
  cbn [comparable] in Hc.
  apply update_path_cons in H as [(l & i & n & old & v & -> & Hi & Hn & Ho & Hv & ->)|(kv & v & -> & Hi & Hv & ->)].
  - destruct (arr_index_digits _ _ _ _ Ht Hi Hn) as (Hd & -> & Hlt).
    cbn [select_tokens]. destruct (all_digits b) eqn:Hb; [|reflexivity].
    destruct (N.eq_dec (digits_val t) (digits_val b)) as [E|E].
    + assert (tok_same t b = true) as Hs.
      { unfold tok_same. rewrite Hd, Hb, E, N.eqb_refl. apply orb_true_r. }
      rewrite Hs in Hc. cbn [andb] in Hc.
      rewrite <- E, nth_list_set_same, Ho by assumption. eapply IH; eassumption.
    + rewrite nth_list_set_other; [reflexivity|]. intros F. apply E. apply N2Nat.inj. exact F.
  - cbn [select_tokens]. destruct (String.eqb_spec t b) as [<-|N].
    + rewrite tok_same_refl in Hc. cbn [andb] in Hc. rewrite obj_get_set_same.
      rewrite (IH _ _ _ _ Hrest Hv Hc).
      destruct (obj_get kv t); [reflexivity|].
      apply select_empty_obj. intros ->. destruct rest; discriminate.
    + rewrite obj_get_set_other by assumption. reflexivity.
Qed.

Theorem put_error_typing_tokens : forall toks j r e,
  update_path j toks r = Err e -> e = ResultPathMatchFailure.
Proof.
  induction toks as [|t rest IH]; intros j r e; cbn [update_path]; [discriminate|].
  destruct j; try (intros H; inversion H; reflexivity).
  - destruct (py_int t); [|intros H; inversion H; reflexivity].
    destruct (py_index (length l) z); [|intros H; inversion H; reflexivity].
    destruct (nth_error l n) as [old|]; [|intros H; inversion H; reflexivity].
    destruct (update_path old rest r) eqn:E; cbn [rbind]; [discriminate|].
    intros H; inversion H; subst. eapply IH; eassumption.
  - destruct (py_int t); [intros H; inversion H; reflexivity|].
    destruct (update_path _ rest r) eqn:E; cbn [rbind]; [discriminate|].
    intros H; inversion H; subst. eapply IH; eassumption.
Qed.

Lemma update_path_truthy t rest j r j' :
  tok_ok t = true -> update_path j (t :: rest) r = Ok j' -> truthy j' = true /\ is_null j' = false.
Proof.
  intros Ht H.
  apply update_path_cons in H as [(l & i & n & old & v & -> & Hi & Hn & Ho & Hv & ->)|(kv & v & -> & Hi & Hv & ->)].
  - destruct (arr_index_digits _ _ _ _ Ht Hi Hn) as (_ & _ & Hlt). cbn.
    destruct l; [cbn in Hlt; lia|]. destruct n; cbn; split; reflexivity.
  - cbn. destruct kv as [|[k x] kv]; cbn; [split; reflexivity|].
    destruct (String.eqb k t); split; reflexivity.
Qed.

(* well-formedness (unique member names) is preserved *)
Lemma existsb_eqb_obj_set k kv t v :
  existsb (String.eqb k) (map fst (obj_set kv t v)) = existsb (String.eqb k) (map fst kv) || String.eqb k t.
Proof.
  induction kv as [|[k' v'] kv IH]; cbn [obj_set map fst existsb].
  - rewrite orb_false_r. reflexivity.
  - destruct (String.eqb_spec k' t) as [->|N]; cbn [map fst existsb].
    + destruct (String.eqb k t); cbn; rewrite ?orb_true_r, ?orb_false_r; reflexivity.
    + rewrite IH. rewrite orb_assoc. reflexivity.
Qed.

Lemma keys_nodup_obj_set kv t v :
  keys_nodup (map fst kv) = true -> keys_nodup (map fst (obj_set kv t v)) = true.
Proof.
  induction kv as [|[k' v'] kv IH]; cbn [obj_set map fst keys_nodup]; intros H; [reflexivity|].
  apply andb_true_iff in H as [H1 H2].
  destruct (String.eqb_spec k' t) as [->|N]; cbn [map fst keys_nodup].
  - rewrite H1, H2. reflexivity.
  - rewrite existsb_eqb_obj_set, (IH H2).
    apply negb_true_iff in H1. rewrite H1.
    destruct (String.eqb_spec k' t); [contradiction|reflexivity].
Qed.

Definition members_wf (kv : list (string * json)) : bool :=
  (fix go (kv : list (string * json)) : bool :=
     match kv with [] => true | (_, v) :: r => json_wf v && go r end) kv.

Lemma json_wf_obj kv : json_wf (JObj kv) = keys_nodup (map fst kv) && members_wf kv.
Proof. reflexivity. Qed.

Lemma members_wf_obj_set kv t v :
  members_wf kv = true -> json_wf v = true -> members_wf (obj_set kv t v) = true.
Proof.
  induction kv as [|[k' v'] kv IH]; cbn; intros H Hv.
  - rewrite Hv. reflexivity.
  - apply andb_true_iff in H as [H1 H2]. destruct (String.eqb k' t); cbn.
    + rewrite Hv. exact H2.
    + rewrite H1. apply IH; assumption.
Qed.

Lemma members_wf_get kv t o : members_wf kv = true -> obj_get kv t = Some o -> json_wf o = true.
Proof.
  induction kv as [|[k' v'] kv IH]; cbn; intros H G; [discriminate|].
  apply andb_true_iff in H as [H1 H2]. destruct (String.eqb k' t).
  - inversion G; subst. exact H1.
  - apply IH; assumption.
Qed.

Lemma forallb_list_set l n (v : json) :
  forallb json_wf l = true -> json_wf v = true -> forallb json_wf (list_set l n v) = true.
Proof.
  revert n. induction l as [|x l IH]; intros [|n]; cbn; intros H Hv; try reflexivity.
  - apply andb_true_iff in H as [_ H2]. rewrite Hv. exact H2.
  - apply andb_true_iff in H as [H1 H2]. rewrite H1. apply IH; assumption.
Qed.

Lemma forallb_nth l n (o : json) : forallb json_wf l = true -> nth_error l n = Some o -> json_wf o = true.
Proof.
  revert n. induction l as [|x l IH]; intros [|n]; cbn; intros H G; try discriminate.
  - apply andb_true_iff in H as [H1 _]. inversion G; subst. exact H1.
  - apply andb_true_iff in H as [_ H2]. eapply IH; eassumption.
Qed.

Theorem put_wf_tokens : forall toks j r j',
  json_wf j = true -> json_wf r = true -> update_path j toks r = Ok j' -> json_wf j' = true.
Proof.
  induction toks as [|t rest IH]; intros j r j' Hj Hr H.
  - cbn in H. inversion H; subst. exact Hr.
  - apply update_path_cons in H as [(l & i & n & old & v & -> & Hi & Hn & Ho & Hv & ->)|(kv & v & -> & Hi & Hv & ->)].
    + cbn [json_wf] in *. apply forallb_list_set; [assumption|].
      eapply IH; [|exact Hr|exact Hv]. eapply forallb_nth; eassumption.
    + rewrite json_wf_obj in *. apply andb_true_iff in Hj as [H1 H2].
      rewrite keys_nodup_obj_set by assumption. cbn [andb].
      apply members_wf_obj_set; [assumption|].
      eapply IH; [|exact Hr|exact Hv].
      destruct (obj_get kv t) eqn:G; [eapply members_wf_get; eassumption|reflexivity].
Qed.
