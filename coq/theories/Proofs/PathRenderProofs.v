(* Dot, bracket-quoted and index notation are tokenised alike by the reader
   (parse_path, standing for jsonpath.normalize) and the writer (ref_tokens). *)
From LSF Require Import PyStr Json GenTypes Paths_gen PathSpec Paths PathProofs.
Open Scope string_scope.

Inductive seg := Dot (n : string) | Brq (n : string) | Idx (n : string).

Definition seg_tok (s : seg) : string := match s with Dot n | Brq n | Idx n => n end.

Definition name_ok (n : string) : bool :=
  negb (String.eqb n "") && forall_char is_name_char n && tok_ok n.

Definition seg_ok (s : seg) : bool :=
  match s with Dot n | Brq n => name_ok n | Idx n => all_digits n end.

Definition render_seg (s : seg) : string :=
  match s with
  | Dot n => String "." n
  | Brq n => String "[" (String "'" (n ++ String "'" (String "]" "")))
  | Idx n => String "[" (n ++ String "]" "")
  end.

Fixpoint render_segs (l : list seg) : string :=
  match l with [] => "" | s :: r => render_seg s ++ render_segs r end.

Definition render (l : list seg) : string := String "$" (render_segs l).

(* -------------------------------------------------------- character facts *)
Lemma name_not_delim a : is_name_char a = true -> is_delim a = false.
Proof.
  destruct a as [[] [] [] [] [] [] [] []]; vm_compute; intros H; first [reflexivity | discriminate H].
Qed.

Lemma digit_is_name a : is_digit a = true -> is_name_char a = true.
Proof. unfold is_name_char. intros ->. reflexivity. Qed.

Lemma delim_dot : is_delim "." = true. Proof. vm_compute. reflexivity. Qed.
Lemma delim_lb : is_delim "[" = true. Proof. vm_compute. reflexivity. Qed.
Lemma delim_rb : is_delim "]" = true. Proof. vm_compute. reflexivity. Qed.
Lemma delim_q : is_delim "'" = true. Proof. vm_compute. reflexivity. Qed.

(* ------------------------------------------------------------ ref_tokens *)
(* The writer's tokeniser on rendered paths.  Names in dot notation consist of name characters; a name in bracket notation may
   contain ANY character except the apostrophe (so '.', '$', '[', ']', ':', ' ', '@' ... are all taken literally). *)
Definition quote_free (n : string) : bool := forall_char (fun a => negb (Ascii.eqb a "'")) n.
Definition wseg_ok (s : seg) : bool :=
  match s with
  | Dot n => negb (String.eqb n "") && forall_char is_name_char n
  | Brq n => quote_free n
  | Idx n => all_digits n
  end.

Lemma eqb_nonempty n : negb (String.eqb n "") = true -> String.eqb n "" = false.
Proof. intros H. apply negb_true_iff in H. exact H. Qed.

Definition starts_with_delim (s : string) : Prop :=
  s = "" \/ exists d r, s = String d r /\ is_delim d = true.

Lemma render_segs_head l : starts_with_delim (render_segs l).
Proof.
  destruct l as [|s l]; [left; reflexivity|]. right.
  destruct s; cbn [render_segs render_seg append]; eauto using delim_dot, delim_lb.
Qed.

Lemma name_char_not_lb a : is_name_char a = true -> Ascii.eqb a "[" = false.
Proof. destruct a as [[] [] [] [] [] [] [] []]; vm_compute; intros H; first [reflexivity | discriminate H]. Qed.

(* outside a quoted name: a run of name characters followed by a delimiter (or the end) is collected into cur *)
Lemma refq_run cur n rest :
  forall_char is_name_char n = true -> starts_with_delim rest ->
  ref_tokens_q false cur (n ++ rest) = ref_tokens_q false (cur ++ n) rest.
Proof.
  revert cur. induction n as [|a n IH]; intros cur H Hr; cbn [append forall_char] in *.
  - rewrite append_nil_r. reflexivity.
  - apply andb_true_iff in H as [Ha Hn].
    assert (Hstep : forall tail, tail <> "" -> ref_tokens_q false cur (String a tail) = ref_tokens_q false (cur ++ String a "") tail).
    { intros tail Ht. destruct tail as [|b t]; [contradiction|]. cbn [ref_tokens_q].
      rewrite (name_char_not_lb _ Ha), (name_not_delim _ Ha). reflexivity. }
    destruct (n ++ rest) as [|b t] eqn:E.
    + (* a is the last character of the whole text *)
      destruct n; [|discriminate E]. cbn [append] in E. subst rest. cbn [ref_tokens_q append].
      rewrite (name_not_delim _ Ha).
      cbn [ref_tokens_q]. unfold flush.
      destruct (String.eqb (cur ++ String a "") "") eqn:Z; [|reflexivity].
      apply String.eqb_eq in Z. destruct cur; discriminate Z.
    + rewrite Hstep by discriminate. rewrite (IH _ Hn Hr). rewrite append_assoc. reflexivity.
Qed.

(* inside a quoted name: everything up to the closing "']" is the name *)
Lemma refq_in_step cur a s :
  Ascii.eqb a "'" = false -> s <> "" -> ref_tokens_q true cur (String a s) = ref_tokens_q true (cur ++ String a "") s.
Proof.
  intros H Hs. destruct s as [|b t]; [contradiction|].
  remember (String b t) as s eqn:Es. cbn [ref_tokens_q]. rewrite Es at 1. cbv beta iota. rewrite H. cbn [andb]. reflexivity.
Qed.

Lemma refq_quoted cur n rest :
  quote_free n = true ->
  ref_tokens_q true cur (n ++ String "'" (String "]" rest)) = option_map (cons (cur ++ n)) (ref_tokens_q false "" rest).
Proof.
  revert cur. induction n as [|a n IH]; intros cur H; cbn [append] in *.
  - cbn [ref_tokens_q]. cbn [Ascii.eqb Bool.eqb andb]. rewrite append_nil_r. reflexivity.
  - unfold quote_free in H. cbn [forall_char] in H. apply andb_true_iff in H as [Ha Hn].
    apply negb_true_iff in Ha.
    rewrite refq_in_step; [|exact Ha|destruct n; discriminate].
    rewrite (IH _ Hn). rewrite append_assoc. reflexivity.
Qed.

Lemma flush_nonempty n l : String.eqb n "" = false -> flush n l = n :: l.
Proof. unfold flush. intros ->. reflexivity. Qed.

(* a token that is complete when a delimiter (or the end) follows *)
Lemma refq_flush n rest :
  String.eqb n "" = false -> starts_with_delim rest ->
  (forall l, ref_tokens_q false "" rest = Some l -> ref_tokens_q false n rest = Some (n :: l)).
Proof.
  intros Hn [->|(d & r & -> & Hd)] l; cbn [ref_tokens_q].
  - intros H. inversion H; subst. unfold flush. rewrite Hn. reflexivity.
  - destruct r as [|b r'].
    + rewrite Hd. intros H. inversion H; subst. unfold flush. rewrite Hn. reflexivity.
    + destruct (Ascii.eqb d "[" && Ascii.eqb b "'").
      * destruct (ref_tokens_q true "" r'); cbn [option_map]; intros H; inversion H; subst. rewrite flush_nonempty by exact Hn. reflexivity.
      * rewrite Hd. destruct (ref_tokens_q false "" (String b r')); cbn [option_map]; intros H; inversion H; subst.
        rewrite flush_nonempty by exact Hn. reflexivity.
Qed.

Lemma forall_char_digits_name n : forall_char is_digit n = true -> forall_char is_name_char n = true.
Proof.
  induction n as [|a n IH]; cbn [forall_char]; intros H; [reflexivity|].
  apply andb_true_iff in H as [Ha Hn]. rewrite (digit_is_name _ Ha), (IH Hn). reflexivity.
Qed.

(* single steps of the tokeniser outside a quoted name *)
Lemma refq_out_step_delim cur d b t :
  is_delim d = true -> (Ascii.eqb d "[" && Ascii.eqb b "'") = false ->
  ref_tokens_q false cur (String d (String b t)) = option_map (flush cur) (ref_tokens_q false "" (String b t)).
Proof.
  intros Hd Hq. remember (String b t) as s eqn:Es. cbn [ref_tokens_q]. rewrite Es at 1. cbv beta iota. rewrite Hq, Hd. reflexivity.
Qed.
Lemma refq_out_open cur t :
  ref_tokens_q false cur (String "[" (String "'" t)) = option_map (flush cur) (ref_tokens_q true "" t).
Proof. cbn [ref_tokens_q]. reflexivity. Qed.
Lemma refq_out_last_delim cur d : is_delim d = true -> ref_tokens_q false cur (String d "") = Some (flush cur []).
Proof. intros Hd. cbn [ref_tokens_q]. rewrite Hd. reflexivity. Qed.
Lemma option_map_flush_nil (x : option (list string)) : option_map (flush "") x = x.
Proof. destruct x; reflexivity. Qed.

Lemma ref_tokens_render_segs l :
  forallb wseg_ok l = true -> ref_tokens_q false "" (render_segs l) = Some (map seg_tok l).
Proof.
  induction l as [|s l IH]; cbn [forallb render_segs map]; intros H; [reflexivity|].
  apply andb_true_iff in H as [Hs Hl]. specialize (IH Hl).
  pose proof (render_segs_head l) as Hh.
  destruct s as [n|n|n]; cbn [seg_tok render_seg wseg_ok] in *.
  - (* .name *)
    apply andb_true_iff in Hs as [Hne Hch]. apply eqb_nonempty in Hne.
    destruct n as [|a n]; [discriminate Hne|]. cbn [append].
    rewrite refq_out_step_delim by (first [exact delim_dot | reflexivity]). rewrite option_map_flush_nil.
    change (String a (n ++ render_segs l)) with (String a n ++ render_segs l).
    rewrite refq_run by assumption. cbn [append].
    rewrite (refq_flush _ _ Hne Hh _ IH). reflexivity.
  - (* ['name'] *)
    cbn [append]. rewrite refq_out_open, option_map_flush_nil.
    rewrite append_assoc. cbn [append]. rewrite refq_quoted by exact Hs. cbn [append]. rewrite IH. reflexivity.
  - (* [digits] *)
    unfold all_digits in Hs. apply andb_true_iff in Hs as [Hne Hd]. apply eqb_nonempty in Hne.
    destruct n as [|a n]; [discriminate Hne|]. cbn [append forall_char] in *.
    apply andb_true_iff in Hd as [Ha Hn].
    assert (Hq : Ascii.eqb a "'" = false) by (destruct a as [[] [] [] [] [] [] [] []]; vm_compute in Ha |- *; first [reflexivity | discriminate Ha]).
    rewrite refq_out_step_delim; [|exact delim_lb|rewrite Hq; apply andb_false_r]. rewrite option_map_flush_nil.
    rewrite append_assoc. cbn [append].
    change (String a (n ++ String "]" (render_segs l))) with (String a n ++ String "]" (render_segs l)).
    rewrite refq_run; [|cbn [forall_char]; rewrite (digit_is_name _ Ha), (forall_char_digits_name _ Hn); reflexivity|right; eauto using delim_rb].
    cbn [append].
    assert (Hclose : ref_tokens_q false "" (String "]" (render_segs l)) = Some (map seg_tok l)).
    { destruct (render_segs l) as [|b t] eqn:E.
      - rewrite refq_out_last_delim by exact delim_rb. rewrite <- IH. reflexivity.
      - rewrite refq_out_step_delim by (first [exact delim_rb | reflexivity]). rewrite option_map_flush_nil. exact IH. }
    rewrite (refq_flush _ _ Hne (or_intror (ex_intro _ "]"%char (ex_intro _ (render_segs l) (conj eq_refl delim_rb)))) _ Hclose).
    reflexivity.
Qed.

Theorem ref_tokens_render_w l :
  forallb wseg_ok l = true -> ref_tokens (render l) = Some (map seg_tok l).
Proof.
  intros H. unfold ref_tokens, render. pose proof (ref_tokens_render_segs _ H) as R.
  destruct (render_segs l) as [|b t] eqn:E.
  - destruct l as [|s l]; [reflexivity|]. destruct s; discriminate E.
  - assert (Hb : (Ascii.eqb "$" "[" && Ascii.eqb b "'") = false) by reflexivity.
    rewrite refq_out_step_delim; [|vm_compute; reflexivity|exact Hb]. rewrite option_map_flush_nil. exact R.
Qed.

Lemma seg_ok_name s : seg_ok s = true ->
  String.eqb (seg_tok s) "" = false /\ forall_char is_name_char (seg_tok s) = true /\ tok_ok (seg_tok s) = true.
Proof.
  destruct s as [n|n|n]; cbn [seg_ok seg_tok]; unfold name_ok, all_digits; intros H.
  - apply andb_true_iff in H as [H H3]. apply andb_true_iff in H as [H1 H2].
    auto using eqb_nonempty.
  - apply andb_true_iff in H as [H H3]. apply andb_true_iff in H as [H1 H2].
    auto using eqb_nonempty.
  - pose proof H as Hd. apply andb_true_iff in H as [H1 H2].
    repeat split; auto using eqb_nonempty, forall_char_digits_name.
    unfold tok_ok. rewrite (py_int_digits n) by exact Hd. exact Hd.
Qed.

Lemma name_chars_quote_free n : forall_char is_name_char n = true -> quote_free n = true.
Proof.
  unfold quote_free. induction n as [|a n IH]; cbn [forall_char]; intros H; [reflexivity|].
  apply andb_true_iff in H as [Ha Hn]. rewrite (IH Hn), andb_true_r.
  destruct a as [[] [] [] [] [] [] [] []]; vm_compute in Ha |- *; first [reflexivity | discriminate Ha].
Qed.

Lemma seg_ok_wseg_ok s : seg_ok s = true -> wseg_ok s = true.
Proof.
  intros H. destruct (seg_ok_name _ H) as (Hne & Hch & _).
  destruct s as [n|n|n]; cbn [seg_ok seg_tok wseg_ok] in *.
  - rewrite Hne, Hch. reflexivity.
  - apply name_chars_quote_free; exact Hch.
  - exact H.
Qed.

Theorem ref_tokens_render l :
  forallb seg_ok l = true -> ref_tokens (render l) = Some (map seg_tok l).
Proof.
  intros H. apply ref_tokens_render_w. rewrite forallb_forall in *. intros s Hs. apply seg_ok_wseg_ok, H, Hs.
Qed.

(* ------------------------------------------------------------- parse_path *)
Definition stops (f : ascii -> bool) (s : string) : Prop :=
  s = "" \/ exists d r, s = String d r /\ f d = false.

Lemma take_while_run f n rest :
  forall_char f n = true -> stops f rest -> take_while f (n ++ rest) = (n, rest).
Proof.
  intros Hn Hr. induction n as [|a n IH]; cbn [append forall_char] in *.
  - destruct Hr as [->|(d & r & -> & Hd)]; cbn [take_while]; [reflexivity|]. rewrite Hd. reflexivity.
  - apply andb_true_iff in Hn as [Ha Hn]. cbn [take_while]. rewrite Ha, (IH Hn). reflexivity.
Qed.

Lemma render_segs_stops_name l : stops is_name_char (render_segs l).
Proof.
  destruct l as [|s l]; [left; reflexivity|]. right.
  destruct s; cbn [render_segs render_seg append]; eexists _, _; split; reflexivity.
Qed.

Lemma length_render_seg_pos s : 1 <= String.length (render_seg s).
Proof. destruct s; cbn; lia. Qed.

Lemma parse_segs_idx fuel a rest :
  a <> "'"%char ->
  parse_segs (S fuel) (String "[" (String a rest)) =
  (let (n0, r') := take_while is_digit (String a rest) in
   if String.eqb n0 "" then None
   else match r' with
        | String "]" r'' => match parse_segs fuel r'' with Some t => Some (n0 :: t) | None => None end
        | _ => None
        end).
Proof.
  intros H. cbn [parse_segs]. destruct a as [[] [] [] [] [] [] [] []]; try reflexivity. congruence.
Qed.

Lemma parse_segs_render l : forall fuel,
  forallb seg_ok l = true -> String.length (render_segs l) < fuel ->
  parse_segs fuel (render_segs l) = Some (map seg_tok l).
Proof.
  induction l as [|s l IH]; intros fuel H Hf; cbn [forallb render_segs map] in *.
  - destruct fuel; [lia|]. reflexivity.
  - apply andb_true_iff in H as [Hs Hl].
    destruct (seg_ok_name _ Hs) as (Hne & Hchars & _).
    destruct fuel as [|fuel]; [lia|].
    rewrite length_append in Hf.
    destruct s as [n|n|n]; cbn [seg_tok render_seg append] in *.
    + cbn [parse_segs]. rewrite take_while_run by auto using render_segs_stops_name.
      rewrite Hne. rewrite IH; [reflexivity|assumption|].
      cbn [String.length] in Hf. rewrite ?length_append in Hf. lia.
    + cbn [parse_segs]. rewrite append_assoc.
      rewrite take_while_run; [|assumption|right; eexists _, _; split; reflexivity].
      rewrite Hne. cbn [append]. rewrite IH; [reflexivity|assumption|].
      cbn [String.length] in Hf. rewrite ?length_append in Hf. cbn [String.length] in Hf. lia.
    + assert (forall_char is_digit n = true) as Hd
        by (cbn [seg_ok] in Hs; unfold all_digits in Hs; apply andb_true_iff in Hs as [_ Hs]; exact Hs).
      assert (exists a r, n = String a r /\ a <> "'"%char) as (a & r & -> & Hq).
      { destruct n as [|a r]; [discriminate|]. exists a, r. split; [reflexivity|].
        cbn [forall_char] in Hd. apply andb_true_iff in Hd as [Ha _]. intros ->. discriminate. }
      cbn [append]. rewrite parse_segs_idx by exact Hq.
      replace (String a ((r ++ String "]" "") ++ render_segs l)) with (String a r ++ String "]" (render_segs l))
        by (cbn [append]; rewrite append_assoc; reflexivity).
      rewrite take_while_run; [|assumption|right; eexists _, _; split; reflexivity].
      cbn [String.eqb]. rewrite IH; [reflexivity|assumption|].
      cbn [String.length append] in Hf. rewrite ?length_append in Hf. cbn [String.length] in Hf. lia.
Qed.

Theorem parse_path_render l :
  forallb seg_ok l = true -> parse_path (render l) = Some (map seg_tok l).
Proof.
  intros H. unfold parse_path, render. apply parse_segs_render; [exact H|lia].
Qed.

Lemma forallb_tok_ok l : forallb seg_ok l = true -> forallb tok_ok (map seg_tok l) = true.
Proof.
  induction l as [|s l IH]; cbn [forallb map]; intros H; [reflexivity|].
  apply andb_true_iff in H as [Hs Hl]. destruct (seg_ok_name _ Hs) as (_ & _ & Ht).
  rewrite Ht, (IH Hl). reflexivity.
Qed.

Lemma render_not_root l : l <> [] -> String.eqb (render l) "$" = false /\ prefixb "$$" (render l) = false.
Proof.
  destruct l as [|s l]; [congruence|]. intros _. unfold render.
  destruct s; cbn; split; reflexivity.
Qed.

(* ------------------------------------------------ the laws at path-text level *)
Definition norm_input (j : json) : json := if is_null j then JObj [] else j.

Theorem put_get_text : forall segs j r j',
  forallb seg_ok segs = true -> segs <> [] ->
  apply_resultpath_m j r (Some (render segs)) = Ok j' ->
  apply_jsonpath_m j' (Some (render segs)) = Some (Ok r).
Proof.
  intros segs j r j' Hok Hne H.
  destruct (render_not_root _ Hne) as [H1 H2].
  unfold apply_resultpath_m in H. rewrite H1, H2, (ref_tokens_render _ Hok) in H.
  pose proof (forallb_tok_ok _ Hok) as Htok.
  unfold apply_jsonpath_m. rewrite H1, (parse_path_render _ Hok).
  destruct segs as [|s segs]; [congruence|]. cbn [map] in *.
  cbn [forallb] in Htok. apply andb_true_iff in Htok as [Ht Hrest].
  destruct (update_path_truthy _ _ _ _ _ Ht H) as [Htr Hnn]. rewrite Hnn, Htr.
  erewrite put_get_tokens; [reflexivity| |exact H]. cbn [forallb]. rewrite Ht, Hrest. reflexivity.
Qed.

Theorem put_frame_text : forall segs j r j' q,
  forallb seg_ok segs = true -> segs <> [] ->
  apply_resultpath_m j r (Some (render segs)) = Ok j' ->
  comparable (map seg_tok segs) q = false ->
  select_tokens j' q = select_tokens (norm_input j) q.
Proof.
  intros segs j r j' q Hok Hne H Hc.
  destruct (render_not_root _ Hne) as [H1 H2].
  unfold apply_resultpath_m in H. rewrite H1, H2, (ref_tokens_render _ Hok) in H.
  eapply put_frame_tokens; [apply forallb_tok_ok; exact Hok|exact H|exact Hc].
Qed.

Theorem put_error_typing_text : forall j r p e,
  apply_resultpath_m j r p = Err e -> e = ResultPathMatchFailure.
Proof.
  intros j r p e. unfold apply_resultpath_m. destruct p as [p|]; [|discriminate].
  destruct (String.eqb p "$"); [discriminate|].
  destruct (prefixb "$$" p); [intros H; inversion H; reflexivity|].
  destruct (ref_tokens p); [apply put_error_typing_tokens|intros H; inversion H; reflexivity].
Qed.

Theorem put_wf_text : forall j r p j',
  json_wf j = true -> json_wf r = true -> apply_resultpath_m j r p = Ok j' -> json_wf j' = true.
Proof.
  intros j r p j' Hj Hr. unfold apply_resultpath_m. destruct p as [p|].
  - destruct (String.eqb p "$"); [intros H; inversion H; subst; exact Hr|].
    destruct (prefixb "$$" p); [discriminate|].
    destruct (ref_tokens p); [|discriminate].
    apply put_wf_tokens; [destruct j; exact Hj || reflexivity|exact Hr].
  - intros H; inversion H; subst. destruct j; exact Hj || reflexivity.
Qed.

(* bracket notation with ANY member name that has no apostrophe ('.', ':', '$', '[', ']', blanks ... included): what is placed there is
   found there, and every other part of the input is as it was *)
Theorem put_get_text_w : forall segs j r j',
  forallb wseg_ok segs = true -> forallb tok_ok (map seg_tok segs) = true -> segs <> [] ->
  apply_resultpath_m j r (Some (render segs)) = Ok j' ->
  select_tokens j' (map seg_tok segs) = Some r.
Proof.
  intros segs j r j' Hok Htok Hne H.
  destruct (render_not_root _ Hne) as [H1 H2].
  unfold apply_resultpath_m in H. rewrite H1, H2, (ref_tokens_render_w _ Hok) in H.
  eapply put_get_tokens; [exact Htok|exact H].
Qed.

Theorem put_frame_text_w : forall segs j r j' q,
  forallb wseg_ok segs = true -> forallb tok_ok (map seg_tok segs) = true -> segs <> [] ->
  apply_resultpath_m j r (Some (render segs)) = Ok j' ->
  comparable (map seg_tok segs) q = false ->
  select_tokens j' q = select_tokens (norm_input j) q.
Proof.
  intros segs j r j' q Hok Htok Hne H Hc.
  destruct (render_not_root _ Hne) as [H1 H2].
  unfold apply_resultpath_m in H. rewrite H1, H2, (ref_tokens_render_w _ Hok) in H.
  eapply put_frame_tokens; [exact Htok|exact H|exact Hc].
Qed.

(* a bracket-quoted name that is never closed cannot be placed *)
Example unterminated_name_is_unplaceable : apply_resultpath_m (JObj []) (JInt 1) (Some "$.a['b") = Err ResultPathMatchFailure.
Proof. vm_compute. reflexivity. Qed.
Example special_names_are_literal :
  ref_tokens "$['a.b'].c['x:y$[0]'][2]" = Some ["a.b"; "c"; "x:y$[0]"; "2"] /\ forallb wseg_ok [Brq "a.b"; Dot "c"; Brq "x:y$[0]"; Idx "2"] = true.
Proof. vm_compute. split; reflexivity. Qed.
