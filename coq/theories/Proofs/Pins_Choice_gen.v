(* WRITTEN by harness/update_pins.py -- digests of the source functions that the
   hand-written models were validated against.  Each lemma is a proof obligation. *)
From LSF Require Import PyStr GenTypes Choice_gen.
Open Scope string_scope.

Lemma pin_isnumber_ok : pin_isnumber = "5e1034ab837db47e". Proof. reflexivity. Qed.
Lemma pin_next_if_ok : pin_next_if = "bc6b93bdebf725b6". Proof. reflexivity. Qed.
Lemma pin_next_if_numeric_ok : pin_next_if_numeric = "b03ee49eb561197a". Proof. reflexivity. Qed.
Lemma pin_next_if_timestamp_ok : pin_next_if_timestamp = "0e8761618df47832". Proof. reflexivity. Qed.
Lemma pin_special_And_ok : pin_special_And = "b40d7d229b3cf128". Proof. reflexivity. Qed.
Lemma pin_special_Or_ok : pin_special_Or = "48e2e49e54dfb527". Proof. reflexivity. Qed.
Lemma pin_special_Not_ok : pin_special_Not = "5cad68dd54476c4f". Proof. reflexivity. Qed.
Lemma pin_special_StringMatches_ok : pin_special_StringMatches = "c8038b8dbcd42999". Proof. reflexivity. Qed.
Lemma pin_special_IsBoolean_ok : pin_special_IsBoolean = "226155fc93ad9e56". Proof. reflexivity. Qed.
Lemma pin_special_IsNull_ok : pin_special_IsNull = "eaafb70e1ca464d8". Proof. reflexivity. Qed.
Lemma pin_special_IsNumeric_ok : pin_special_IsNumeric = "1c2b2ae38ee40c47". Proof. reflexivity. Qed.
Lemma pin_special_IsString_ok : pin_special_IsString = "9de0e33a325c0b31". Proof. reflexivity. Qed.
Lemma pin_special_IsPresent_ok : pin_special_IsPresent = "bfccc0cb5b5d1593". Proof. reflexivity. Qed.
Lemma pin_special_IsTimestamp_ok : pin_special_IsTimestamp = "eef42669ced462e4". Proof. reflexivity. Qed.
Lemma pin_choose_loop_ok : pin_choose_loop = "c823d91d7cd2eb0a". Proof. reflexivity. Qed.
Lemma pin_choose_head_ok : pin_choose_head = "1e9d7c1bc053fc52". Proof. reflexivity. Qed.
Lemma pin_choice_state_ok : pin_choice_state = "1c71febcc7a701c9". Proof. reflexivity. Qed.
