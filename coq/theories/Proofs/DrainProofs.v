(* C03, drain clause: once an execution is terminal nothing of it is left - no queued event, no delivered and
   unacknowledged event, and therefore no armed timer (in the protocol model every armed timer belongs to a held event). *)
From Coq Require Import List Arith Bool Lia.
Import ListNotations.
From LSF Require Import TraceSpec Protocol ProtocolProofs.

Lemma cntx_zero_notin x l : cntx x l = 0 -> forall e, In e l -> e_x e <> x.
Proof.
  unfold cntx. induction l as [|a l IH]; intros H e Hin; [destruct Hin|].
  cbn [filter] in H. destruct (Nat.eqb_spec (e_x a) x) as [E|N].
  - cbn [length] in H. discriminate.
  - destruct Hin as [<-|Hin]; [exact N|apply IH; assumption].
Qed.

Theorem nothing_left_of_terminal kind s0 starts w effs x st :
  reachable kind s0 starts w effs -> get_status x (statuses w) = Some st -> st <> Running ->
  (forall e, In e (queue w) -> e_x e <> x) /\
  (forall e p, In (e, p) (held w) -> e_x e <> x).
Proof.
  intros R S N. pose proof (token_conservation kind s0 starts w effs x R) as T. rewrite S in T.
  assert (tokens w x = 0) as Z by (destruct st; [contradiction|exact T|exact T]).
  unfold tokens in Z. assert (cntx x (queue w) = 0 /\ cntx x (hevents w) = 0) as (Zq & Zh) by lia.
  split.
  - apply cntx_zero_notin. exact Zq.
  - intros e p Hin. apply (cntx_zero_notin x (hevents w) Zh). unfold hevents. apply in_map_iff. exists (e, p). split; [reflexivity|exact Hin].
Qed.

(* when every execution that has an event anywhere is terminal, the world is drained: no message, no held event, no timer *)
Theorem all_terminal_drained kind s0 starts w effs :
  reachable kind s0 starts w effs ->
  (forall e, In e (queue w ++ hevents w) -> exists st, get_status (e_x e) (statuses w) = Some st /\ st <> Running) ->
  queue w = [] /\ held w = [] /\ tids w = [].
Proof.
  intros R H.
  assert (queue w = []) as Q.
  { destruct (queue w) as [|e q] eqn:E in |- *; [reflexivity|]. exfalso.
    assert (In e (queue w)) as Hin by (rewrite E; left; reflexivity).
    destruct (H e) as (st & S & N); [apply in_or_app; left; exact Hin|].
    destruct (nothing_left_of_terminal _ _ _ _ _ _ _ R S N) as (Hq & _). apply (Hq e Hin). reflexivity. }
  assert (held w = []) as Hd.
  { destruct (held w) as [|[e p] h] eqn:E in |- *; [reflexivity|]. exfalso.
    assert (In (e, p) (held w)) as Hin by (rewrite E; left; reflexivity).
    destruct (H e) as (st & S & N); [apply in_or_app; right; unfold hevents; apply in_map_iff; exists (e, p); split; [reflexivity|exact Hin]|].
    destruct (nothing_left_of_terminal _ _ _ _ _ _ _ R S N) as (_ & Hh). apply (Hh e p Hin). reflexivity. }
  split; [exact Q|]. split; [exact Hd|]. unfold tids. rewrite Hd. reflexivity.
Qed.
