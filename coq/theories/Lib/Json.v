(* JSON values as Python sees them after json.loads: insertion-ordered objects,
   unbounded integers, floats as exact fractions n/d (every finite binary float is one). *)
From LSF Require Export PyStr.
From Coq Require Import QArith.
Close Scope Q_scope.
Open Scope string_scope.

Inductive json :=
| JNull
| JBool (b : bool)
| JInt (z : Z)
| JFlt (n : Z) (d : positive)
| JStr (s : string)
| JArr (l : list json)
| JObj (kv : list (string * json)).

(* ------------------------------------------------------ induction principle *)
Definition json_ind' (P : json -> Prop)
  (HNull : P JNull) (HBool : forall b, P (JBool b)) (HInt : forall z, P (JInt z))
  (HFlt : forall n d, P (JFlt n d)) (HStr : forall s, P (JStr s))
  (HArr : forall l, Forall P l -> P (JArr l))
  (HObj : forall kv, Forall (fun p => P (snd p)) kv -> P (JObj kv)) : forall j, P j :=
  fix json_ind' (j : json) : P j :=
    match j with
    | JNull => HNull
    | JBool b => HBool b
    | JInt z => HInt z
    | JFlt n d => HFlt n d
    | JStr s => HStr s
    | JArr l =>
        HArr l ((fix go (l : list json) : Forall P l :=
                   match l with
                   | [] => Forall_nil _
                   | x :: r => Forall_cons _ (json_ind' x) (go r)
                   end) l)
    | JObj kv =>
        HObj kv ((fix go (kv : list (string * json)) : Forall (fun p => P (snd p)) kv :=
                    match kv with
                    | [] => Forall_nil _
                    | (k, v) :: r => Forall_cons (k, v) (json_ind' v) (go r)
                    end) kv)
    end.

(* --------------------------------------------------------------- equality *)
Fixpoint json_eqb (a b : json) : bool :=
  match a, b with
  | JNull, JNull => true
  | JBool x, JBool y => Bool.eqb x y
  | JInt x, JInt y => Z.eqb x y
  | JFlt n d, JFlt n' d' => Z.eqb n n' && Pos.eqb d d'
  | JStr x, JStr y => String.eqb x y
  | JArr l, JArr m =>
      (fix go (l m : list json) : bool :=
         match l, m with
         | [], [] => true
         | x :: l', y :: m' => json_eqb x y && go l' m'
         | _, _ => false
         end) l m
  | JObj l, JObj m =>
      (fix go (l m : list (string * json)) : bool :=
         match l, m with
         | [], [] => true
         | (k, x) :: l', (k', y) :: m' => String.eqb k k' && json_eqb x y && go l' m'
         | _, _ => false
         end) l m
  | _, _ => false
  end.

Lemma json_eqb_refl : forall j, json_eqb j j = true.
Proof.
  induction j using json_ind'; cbn [json_eqb]; auto using Bool.eqb_reflx, Z.eqb_refl, String.eqb_refl.
  - rewrite Z.eqb_refl, Pos.eqb_refl. reflexivity.
  - induction H as [|x r Hx Hr IH]; [reflexivity|]. rewrite Hx. exact IH.
  - induction H as [|[k v] r Hx Hr IH]; [reflexivity|]. cbn [snd] in Hx. rewrite String.eqb_refl, Hx. exact IH.
Qed.

Lemma json_eqb_eq : forall a c, json_eqb a c = true -> a = c.
Proof.
  induction a using json_ind'; intros c; destruct c; cbn [json_eqb]; intros E; try discriminate; try reflexivity.
  - apply Bool.eqb_prop in E. congruence.
  - apply Z.eqb_eq in E. congruence.
  - apply andb_true_iff in E as [E1 E2]. apply Z.eqb_eq in E1. apply Pos.eqb_eq in E2. congruence.
  - apply String.eqb_eq in E. congruence.
  - f_equal. rename l0 into m0. revert m0 E. induction H as [|x r Hx Hr IH]; intros [|y m] E; try discriminate; [reflexivity|].
    apply andb_true_iff in E as [E1 E2]. f_equal; [apply Hx; exact E1 | apply IH; exact E2].
  - f_equal. revert kv0 E. induction H as [|[k v] r Hx Hr IH]; intros [|[k' y] m] E; try discriminate; [reflexivity|].
    apply andb_true_iff in E as [E1 E3]. apply andb_true_iff in E1 as [E1 E2].
    apply String.eqb_eq in E1. cbn [snd] in Hx. f_equal; [f_equal; [exact E1 | apply Hx; exact E2] | apply IH; exact E3].
Qed.

(* ------------------------------------------------------------ dict access *)
Fixpoint obj_get (kv : list (string * json)) (k : string) : option json :=
  match kv with
  | [] => None
  | (k', v) :: r => if String.eqb k' k then Some v else obj_get r k
  end.

(* d[k] = v : replace in place or append, as a Python dict does *)
Fixpoint obj_set (kv : list (string * json)) (k : string) (v : json) : list (string * json) :=
  match kv with
  | [] => [(k, v)]
  | (k', v') :: r => if String.eqb k' k then (k', v) :: r else (k', v') :: obj_set r k v
  end.

Fixpoint obj_del (kv : list (string * json)) (k : string) : list (string * json) :=
  match kv with
  | [] => []
  | (k', v') :: r => if String.eqb k' k then r else (k', v') :: obj_del r k
  end.

Definition obj_has (kv : list (string * json)) (k : string) : bool :=
  match obj_get kv k with Some _ => true | None => false end.

Lemma obj_get_set_same kv k v : obj_get (obj_set kv k v) k = Some v.
Proof.
  induction kv as [|[k' v'] r IH]; cbn [obj_set obj_get].
  - rewrite String.eqb_refl. reflexivity.
  - destruct (String.eqb k' k) eqn:E; cbn [obj_get]; rewrite E; [reflexivity|exact IH].
Qed.

Lemma obj_get_set_other kv k k2 v : k <> k2 -> obj_get (obj_set kv k v) k2 = obj_get kv k2.
Proof.
  intros N. induction kv as [|[k' v'] r IH]; cbn [obj_set obj_get].
  - destruct (String.eqb_spec k k2); [contradiction|reflexivity].
  - destruct (String.eqb_spec k' k) as [->|N']; cbn [obj_get].
    + destruct (String.eqb_spec k k2); [contradiction|reflexivity].
    + destruct (String.eqb k' k2); [reflexivity|exact IH].
Qed.

(* list update *)
Fixpoint list_set {A} (l : list A) (i : nat) (v : A) : list A :=
  match l, i with
  | [], _ => []
  | _ :: r, O => v :: r
  | x :: r, S i' => x :: list_set r i' v
  end.

Lemma nth_list_set_same {A} (l : list A) i v : i < length l -> nth_error (list_set l i v) i = Some v.
Proof.
  revert i. induction l as [|x r IH]; intros [|i] H; cbn in *; try lia; [reflexivity|]. apply IH. lia.
Qed.

Lemma nth_list_set_other {A} (l : list A) i j v : i <> j -> nth_error (list_set l i v) j = nth_error l j.
Proof.
  revert i j. induction l as [|x r IH]; intros [|i] [|j] H; cbn; try reflexivity; try contradiction.
  apply IH. congruence.
Qed.

Lemma length_list_set {A} (l : list A) i v : length (list_set l i v) = length l.
Proof. revert i. induction l as [|x r IH]; intros [|i]; cbn; auto. Qed.

(* unique keys at every level *)
Fixpoint keys_nodup (ks : list string) : bool :=
  match ks with
  | [] => true
  | k :: r => negb (existsb (String.eqb k) r) && keys_nodup r
  end.

Fixpoint json_wf (j : json) : bool :=
  match j with
  | JArr l => forallb json_wf l
  | JObj kv => keys_nodup (map fst kv) &&
               (fix go (kv : list (string * json)) : bool :=
                  match kv with [] => true | (_, v) :: r => json_wf v && go r end) kv
  | _ => true
  end.

(* bool(x) *)
Definition truthy (j : json) : bool :=
  match j with
  | JNull => false
  | JBool b => b
  | JInt z => negb (Z.eqb z 0)
  | JFlt n _ => negb (Z.eqb n 0)
  | JStr s => negb (String.eqb s "")
  | JArr l => match l with [] => false | _ => true end
  | JObj kv => match kv with [] => false | _ => true end
  end.

Definition is_null (j : json) : bool := match j with JNull => true | _ => false end.

(* numbers as rationals; Python compares int, float and bool numerically *)
Definition num_of (j : json) : option Q :=
  match j with
  | JInt z => Some (inject_Z z)
  | JFlt n d => Some (Qmake n d)
  | JBool b => Some (inject_Z (if b then 1 else 0))
  | _ => None
  end.

(* str.isdigit() and int() of a digit string *)
Definition all_digits (s : string) : bool :=
  negb (String.eqb s "") && forall_char is_digit s.

Fixpoint digits_val_acc (s : string) (acc : N) : N :=
  match s with
  | EmptyString => acc
  | String a r => digits_val_acc r (acc * 10 + N.of_nat (nat_of_ascii a - 48))
  end.
Definition digits_val (s : string) : N := digits_val_acc s 0.

Lemma json_wf_obj_alt kv :
  json_wf (JObj kv) = keys_nodup (map fst kv) &&
  (fix go (kv : list (string * json)) : bool :=
     match kv with [] => true | (_, v) :: r => json_wf v && go r end) kv.
Proof. reflexivity. Qed.
