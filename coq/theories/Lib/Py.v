(* A small universe of Python values and the partial operations that the
   translator (harness/translate.py) emits calls to.  [None : option] = a Python
   exception (TypeError, IndexError, KeyError, ...). *)
From LSF Require Export PyStr.

Inductive pv :=
| PNone
| PBool (b : bool)
| PInt (z : Z)
| PStr (s : string)
| PList (l : list pv)
| PDict (kv : list (string * pv)).

Definition bind {A B} (m : option A) (f : A -> option B) : option B :=
  match m with Some a => f a | None => None end.
Notation "x <- m ;; k" := (bind m (fun x => k)) (at level 61, m at next level, right associativity).
Notation "' pat <- m ;; k" := (bind m (fun x => match x with pat => k end))
  (at level 61, pat pattern, m at next level, right associativity).

Definition py_truthy (v : pv) : bool :=
  match v with
  | PNone => false
  | PBool b => b
  | PInt z => negb (Z.eqb z 0)
  | PStr s => negb (String.eqb s "")
  | PList l => match l with [] => false | _ => true end
  | PDict kv => match kv with [] => false | _ => true end
  end.

Definition py_isdict (v : pv) : bool := match v with PDict _ => true | _ => false end.
Definition py_isstr (v : pv) : bool := match v with PStr _ => true | _ => false end.

(* a + b on strings *)
Definition py_add (a b : pv) : option pv :=
  match a, b with
  | PStr x, PStr y => Some (PStr (x ++ y))
  | _, _ => None
  end.

Definition one_char (s : string) : option ascii :=
  match s with String c EmptyString => Some c | _ => None end.

(* s.split(sep, max) for a one-character separator *)
Definition py_split (s sep : pv) (maxsplit : nat) : option pv :=
  match s, sep with
  | PStr x, PStr y => c <- one_char y ;; Some (PList (map PStr (split_char_n c maxsplit x)))
  | _, _ => None
  end.

Definition py_rpartition (s sep : pv) : option pv :=
  match s, sep with
  | PStr x, PStr y =>
      c <- one_char y ;;
      let '(a, m, b) := rpartition_char c x in Some (PList [PStr a; PStr m; PStr b])
  | _, _ => None
  end.

Definition py_partition (s sep : pv) : option pv :=
  match s, sep with
  | PStr x, PStr y =>
      c <- one_char y ;;
      let '(a, m, b) := partition_char c x in Some (PList [PStr a; PStr m; PStr b])
  | _, _ => None
  end.

Definition py_split_all (s sep : pv) : option pv :=
  match s, sep with
  | PStr x, PStr y => c <- one_char y ;; Some (PList (map PStr (split_char c x)))
  | _, _ => None
  end.

(* sub in s, for a one-character sub *)
Definition py_in (sub s : pv) : option bool :=
  match sub, s with
  | PStr y, PStr x => c <- one_char y ;; Some (has_char c x)
  | _, _ => None
  end.

Fixpoint dict_get (kv : list (string * pv)) (k : string) : option pv :=
  match kv with
  | [] => None
  | (k', v) :: r => if String.eqb k' k then Some v else dict_get r k
  end.

Fixpoint dict_set (kv : list (string * pv)) (k : string) (v : pv) : list (string * pv) :=
  match kv with
  | [] => [(k, v)]
  | (k', v') :: r => if String.eqb k' k then (k', v) :: r else (k', v') :: dict_set r k v
  end.

(* container[index] : list by non-negative integer, dict by string key *)
Definition py_getitem (c i : pv) : option pv :=
  match c, i with
  | PList l, PInt z => if Z.ltb z 0 then None else nth_error l (Z.to_nat z)
  | PDict kv, PStr k => dict_get kv k
  | _, _ => None
  end.

Definition py_setitem (c i v : pv) : option pv :=
  match c, i with
  | PDict kv, PStr k => Some (PDict (dict_set kv k v))
  | _, _ => None
  end.

(* d.get(k, default) *)
Definition py_get (c i d : pv) : option pv :=
  match c, i with
  | PDict kv, PStr k => Some (match dict_get kv k with Some v => v | None => d end)
  | _, _ => None
  end.

(* str(v) for the values that reach a format call *)
Definition py_str (v : pv) : option string :=
  match v with
  | PStr s => Some s
  | PNone => Some "None"
  | PBool true => Some "True"
  | PBool false => Some "False"
  | _ => None
  end.

(* fmt.format(args) for format strings whose only fields are "{}" *)
Fixpoint py_format_aux (fmt : string) (args : list pv) : option string :=
  match fmt with
  | EmptyString => Some EmptyString
  | String "{" (String "}" r) =>
      match args with
      | [] => None
      | a :: args' => s <- py_str a ;; t <- py_format_aux r args' ;; Some (s ++ t)
      end
  | String "{" _ => None
  | String "}" _ => None
  | String a r => t <- py_format_aux r args ;; Some (String a t)
  end.

Definition py_format (fmt : string) (args : list pv) : option pv :=
  s <- py_format_aux fmt args ;; Some (PStr s).

(* keyword expansion f( ** d ): every key of d must be a parameter name; missing ones take defaults *)
Fixpoint kw_ok (params : list string) (kv : list (string * pv)) : bool :=
  match kv with
  | [] => true
  | (k, _) :: r => existsb (String.eqb k) params && kw_ok params r
  end.

Definition kw_arg (kv : list (string * pv)) (k : string) (d : pv) : pv :=
  match dict_get kv k with Some v => v | None => d end.

Fixpoint pv_eqb (a b : pv) : bool :=
  match a, b with
  | PNone, PNone => true
  | PBool x, PBool y => Bool.eqb x y
  | PInt x, PInt y => Z.eqb x y
  | PStr x, PStr y => String.eqb x y
  | PList l, PList m =>
      (fix go (l m : list pv) : bool :=
         match l, m with
         | [], [] => true
         | x :: l', y :: m' => pv_eqb x y && go l' m'
         | _, _ => false
         end) l m
  | PDict l, PDict m =>
      (fix go (l m : list (string * pv)) : bool :=
         match l, m with
         | [], [] => true
         | (k, x) :: l', (k', y) :: m' => String.eqb k k' && pv_eqb x y && go l' m'
         | _, _ => false
         end) l m
  | _, _ => false
  end.
