(* Python str operations used by the engine, over Coq [string].
   Each [ascii] is one code point 0..255 (code points above 255 are outside the model). *)
From Coq Require Export String Ascii List Bool Arith NArith ZArith Lia.
Export ListNotations.
Open Scope string_scope.

Definition ascii_eqb (a b : ascii) : bool := Ascii.eqb a b.

Lemma ascii_eqb_eq a b : ascii_eqb a b = true <-> a = b.
Proof. unfold ascii_eqb. apply Ascii.eqb_eq. Qed.

Lemma ascii_eqb_refl a : ascii_eqb a a = true.
Proof. apply ascii_eqb_eq; reflexivity. Qed.

Lemma ascii_eqb_neq a b : ascii_eqb a b = false <-> a <> b.
Proof. unfold ascii_eqb. apply Ascii.eqb_neq. Qed.

(* [c in s] for a one-character string c *)
Fixpoint has_char (c : ascii) (s : string) : bool :=
  match s with
  | EmptyString => false
  | String a r => ascii_eqb a c || has_char c r
  end.

(* first occurrence: (text before, text after) *)
Fixpoint find_char (c : ascii) (s : string) : option (string * string) :=
  match s with
  | EmptyString => None
  | String a r =>
      if ascii_eqb a c then Some (EmptyString, r)
      else match find_char c r with
           | Some (p, q) => Some (String a p, q)
           | None => None
           end
  end.

(* last occurrence *)
Fixpoint rfind_char (c : ascii) (s : string) : option (string * string) :=
  match s with
  | EmptyString => None
  | String a r =>
      match rfind_char c r with
      | Some (p, q) => Some (String a p, q)
      | None => if ascii_eqb a c then Some (EmptyString, r) else None
      end
  end.

(* s.split(c, n): at most n splits, from the left *)
Fixpoint split_char_n (c : ascii) (n : nat) (s : string) : list string :=
  match n with
  | O => [s]
  | S n' =>
      match find_char c s with
      | None => [s]
      | Some (a, b) => a :: split_char_n c n' b
      end
  end.

(* s.split(c) *)
Definition split_char (c : ascii) (s : string) : list string :=
  split_char_n c (String.length s) s.

(* s.partition(c) / s.rpartition(c) for a one-character separator *)
Definition partition_char (c : ascii) (s : string) : string * string * string :=
  match find_char c s with
  | Some (a, b) => (a, String c EmptyString, b)
  | None => (s, EmptyString, EmptyString)
  end.

Definition rpartition_char (c : ascii) (s : string) : string * string * string :=
  match rfind_char c s with
  | Some (a, b) => (a, String c EmptyString, b)
  | None => (EmptyString, EmptyString, s)
  end.

Fixpoint join_char (c : ascii) (l : list string) : string :=
  match l with
  | [] => EmptyString
  | [x] => x
  | x :: r => x ++ String c (join_char c r)
  end.

Fixpoint prefixb (p s : string) : bool :=
  match p, s with
  | EmptyString, _ => true
  | String a p', String b s' => ascii_eqb a b && prefixb p' s'
  | _, _ => false
  end.

(* substring test: [p in s] *)
Fixpoint substrb (p s : string) : bool :=
  prefixb p s ||
  match s with
  | EmptyString => false
  | String _ r => substrb p r
  end.

Fixpoint forall_char (f : ascii -> bool) (s : string) : bool :=
  match s with
  | EmptyString => true
  | String a r => f a && forall_char f r
  end.

Fixpoint exists_char (f : ascii -> bool) (s : string) : bool :=
  match s with
  | EmptyString => false
  | String a r => f a || exists_char f r
  end.

Definition is_digit (a : ascii) : bool :=
  let n := nat_of_ascii a in Nat.leb 48 n && Nat.leb n 57.

(* string built from code points; used by generated case files *)
Fixpoint str_of_codes (l : list nat) : string :=
  match l with
  | [] => EmptyString
  | n :: r => String (ascii_of_nat n) (str_of_codes r)
  end.

Fixpoint codes_of_str (s : string) : list nat :=
  match s with
  | EmptyString => []
  | String a r => nat_of_ascii a :: codes_of_str r
  end.

Fixpoint str_take (n : nat) (s : string) : string :=
  match n, s with
  | S n', String a r => String a (str_take n' r)
  | _, _ => EmptyString
  end.
Fixpoint str_drop (n : nat) (s : string) : string :=
  match n, s with
  | S n', String _ r => str_drop n' r
  | _, _ => s
  end.
Definition str_sub (i len : nat) (s : string) : string := str_take len (str_drop i s).

(* ---------------------------------------------------------------- lemmas *)

Lemma has_char_app c a b : has_char c (a ++ b) = has_char c a || has_char c b.
Proof. induction a as [|x a IH]; simpl; [reflexivity|]. rewrite IH. apply orb_assoc. Qed.

Lemma find_char_none c s : has_char c s = false -> find_char c s = None.
Proof.
  induction s as [|a r IH]; simpl; intros H; [reflexivity|].
  apply orb_false_iff in H as [Ha Hr]. rewrite Ha, (IH Hr). reflexivity.
Qed.

Lemma find_char_some_has c s p q : find_char c s = Some (p, q) -> has_char c s = true.
Proof.
  destruct (has_char c s) eqn:H; [reflexivity|]. rewrite (find_char_none _ _ H). discriminate.
Qed.

Lemma find_char_app c a b :
  has_char c a = false -> find_char c (a ++ String c b) = Some (a, b).
Proof.
  induction a as [|x a IH]; simpl; intros H.
  - rewrite ascii_eqb_refl. reflexivity.
  - apply orb_false_iff in H as [Hx Ha]. rewrite Hx, (IH Ha). reflexivity.
Qed.

Lemma find_char_spec c s p q :
  find_char c s = Some (p, q) -> s = p ++ String c q /\ has_char c p = false.
Proof.
  revert p q. induction s as [|a r IH]; simpl; intros p q H; [discriminate|].
  destruct (ascii_eqb a c) eqn:E.
  - inversion H; subst. apply ascii_eqb_eq in E. subst. split; reflexivity.
  - destruct (find_char c r) as [[p' q']|] eqn:F; [|discriminate].
    inversion H; subst. destruct (IH _ _ eq_refl) as [-> Hp]. split; [reflexivity|].
    simpl. rewrite E, Hp. reflexivity.
Qed.

Lemma rfind_char_none c s : has_char c s = false -> rfind_char c s = None.
Proof.
  induction s as [|a r IH]; simpl; intros H; [reflexivity|].
  apply orb_false_iff in H as [Ha Hr]. rewrite (IH Hr), Ha. reflexivity.
Qed.

Lemma rfind_char_app c a b :
  has_char c b = false -> rfind_char c (a ++ String c b) = Some (a, b).
Proof.
  intros Hb. induction a as [|x a IH]; simpl.
  - rewrite (rfind_char_none _ _ Hb), ascii_eqb_refl. reflexivity.
  - rewrite IH. reflexivity.
Qed.

Lemma rfind_char_spec c s p q :
  rfind_char c s = Some (p, q) -> s = p ++ String c q /\ has_char c q = false.
Proof.
  revert p q. induction s as [|a r IH]; simpl; intros p q H; [discriminate|].
  destruct (rfind_char c r) as [[p' q']|] eqn:F.
  - inversion H; subst. destruct (IH _ _ eq_refl) as [-> Hq]. split; [reflexivity|exact Hq].
  - destruct (ascii_eqb a c) eqn:E; [|discriminate].
    inversion H; subst. apply ascii_eqb_eq in E. subst. split; [reflexivity|].
    destruct (has_char c q) eqn:Hq; [|reflexivity].
    clear -F Hq. exfalso. induction q as [|x q IH]; simpl in *; [discriminate|].
    destruct (rfind_char c q) as [[? ?]|]; [discriminate|].
    destruct (ascii_eqb x c); [discriminate|]. simpl in Hq. auto.
Qed.

Lemma split_char_n_nochar c n s : has_char c s = false -> split_char_n c n s = [s].
Proof. intros H. destruct n; simpl; [reflexivity|]. rewrite (find_char_none _ _ H). reflexivity. Qed.

Lemma split_char_n_app c n a b :
  has_char c a = false ->
  split_char_n c (S n) (a ++ String c b) = a :: split_char_n c n b.
Proof. intros H. simpl. rewrite (find_char_app _ _ _ H). reflexivity. Qed.

Lemma append_assoc (a b c : string) : (a ++ b) ++ c = a ++ (b ++ c).
Proof. induction a as [|x a IH]; simpl; [reflexivity|]. rewrite IH. reflexivity. Qed.

Lemma append_nil_r (a : string) : a ++ "" = a.
Proof. induction a as [|x a IH]; simpl; [reflexivity|]. rewrite IH. reflexivity. Qed.

Lemma length_append (a b : string) : String.length (a ++ b) = String.length a + String.length b.
Proof. induction a as [|x a IH]; simpl; [reflexivity|]. rewrite IH. reflexivity. Qed.

Lemma str_codes_roundtrip s : str_of_codes (codes_of_str s) = s.
Proof. induction s as [|a r IH]; simpl; [reflexivity|]. rewrite ascii_nat_embedding, IH. reflexivity. Qed.
