(* Support for generated case files. *)
From Coq Require Import List Bool.
Import ListNotations.

Fixpoint fail_indices_from {A} (f : A -> bool) (l : list A) (i : nat) : list nat :=
  match l with
  | [] => []
  | x :: r => if f x then fail_indices_from f r (S i) else i :: fail_indices_from f r (S i)
  end.

Definition fail_indices {A} (f : A -> bool) (l : list A) : list nat := fail_indices_from f l 0.

Definition option_eqb {A} (eqb : A -> A -> bool) (a b : option A) : bool :=
  match a, b with
  | Some x, Some y => eqb x y
  | None, None => true
  | _, _ => false
  end.
