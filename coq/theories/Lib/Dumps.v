(* json.dumps of the standard library with its default settings (ensure_ascii,
   separators ", " and ": "), for float-free values.  Floats are outside the model. *)
From LSF Require Import PyStr Json.
Open Scope string_scope.

Fixpoint N_dec_aux (fuel : nat) (n : N) (acc : string) : string :=
  match fuel with
  | O => acc
  | S f =>
      let d := String (ascii_of_nat (48 + N.to_nat (N.modulo n 10))) acc in
      if N.ltb n 10 then d else N_dec_aux f (N.div n 10) d
  end.
(* enough fuel: a number has at most log2 + 1 decimal digits *)
Definition N_dec (n : N) : string := N_dec_aux (S (N.to_nat (N.log2 n))) n "".

Definition Z_dec (z : Z) : string :=
  match z with
  | Z0 => "0"
  | Zpos p => N_dec (Npos p)
  | Zneg p => String "-" (N_dec (Npos p))
  end.

Definition hex_digit (n : nat) : ascii :=
  ascii_of_nat (if Nat.ltb n 10 then 48 + n else 87 + n).

Definition esc_char (a : ascii) : string :=
  let n := nat_of_ascii a in
  if Nat.eqb n 34 then "\"""
  else if Nat.eqb n 92 then "\\"
  else if Nat.eqb n 10 then "\n"
  else if Nat.eqb n 13 then "\r"
  else if Nat.eqb n 9 then "\t"
  else if Nat.eqb n 8 then "\b"
  else if Nat.eqb n 12 then "\f"
  else if Nat.ltb n 32 || Nat.ltb 126 n
  then "\u00" ++ String (hex_digit (n / 16)) (String (hex_digit (n mod 16)) "")
  else String a "".

Fixpoint esc_string (s : string) : string :=
  match s with
  | EmptyString => EmptyString
  | String a r => esc_char a ++ esc_string r
  end.

Definition quote (s : string) : string := String """" (esc_string s ++ String """" "").

Fixpoint dumps (j : json) : option string :=
  match j with
  | JNull => Some "null"
  | JBool true => Some "true"
  | JBool false => Some "false"
  | JInt z => Some (Z_dec z)
  | JFlt _ _ => None
  | JStr s => Some (quote s)
  | JArr l =>
      match l with
      | [] => Some "[]"
      | x :: r =>
          match dumps x,
                (fix go (r : list json) : option string :=
                   match r with
                   | [] => Some ""
                   | y :: r' => match dumps y, go r' with
                                | Some a, Some b => Some (", " ++ a ++ b)
                                | _, _ => None
                                end
                   end) r with
          | Some a, Some b => Some ("[" ++ a ++ b ++ "]")
          | _, _ => None
          end
      end
  | JObj kv =>
      match kv with
      | [] => Some "{}"
      | (k, x) :: r =>
          match dumps x,
                (fix go (r : list (string * json)) : option string :=
                   match r with
                   | [] => Some ""
                   | (k', y) :: r' => match dumps y, go r' with
                                      | Some a, Some b => Some (", " ++ quote k' ++ ": " ++ a ++ b)
                                      | _, _ => None
                                      end
                   end) r with
          | Some a, Some b => Some ("{" ++ quote k ++ ": " ++ a ++ b ++ "}")
          | _, _ => None
          end
      end
  end.

Definition dumps_len (j : json) : option N :=
  match dumps j with Some s => Some (N.of_nat (String.length s)) | None => None end.
