(* Types that generated files (Gen/*.v) refer to. *)
From Coq Require Import NArith String.

Inductive cmp := Gt_ | Ge_ | Lt_ | Le_ | Eq_ | Ne_.

(* [cmp_holds op a b] = the Python comparison [a op b] *)
Definition cmp_holds (c : cmp) (a b : N) : bool :=
  match c with
  | Gt_ => N.ltb b a
  | Ge_ => N.leb b a
  | Lt_ => N.ltb a b
  | Le_ => N.leb a b
  | Eq_ => N.eqb a b
  | Ne_ => negb (N.eqb a b)
  end.

(* shape of the regex in valid_name: "^.*[class].*$" or "[class]" *)
Inductive rx_shape := AnchoredLine | Plain.

(* how an asl_choice_* handler is written (state_engine.py choose) *)
Inductive cmp_type := TBool | TStr.
Inductive choice_kind :=
| KCmp (op : cmp) (t : cmp_type)      (* next_if(variable, operator.op, value, t) *)
| KCmpLower (op : cmp)                (* next_if(variable.lower(), op, value.lower(), str) *)
| KNum (op : cmp)                     (* next_if_numeric(variable, op, value) *)
| KTs (op : cmp)                      (* next_if_timestamp(variable, op, value) *)
| KGuard (k : choice_kind)            (* if not path_match_failed: <k> *)
| KSpecial (src_hash : String.string). (* hand-modelled handler, pinned by the digest of its AST *)
