(* Types that generated files (Gen/*.v) refer to. *)
From Coq Require Import NArith.

Inductive cmp := Gt_ | Ge_ | Lt_ | Le_ | Eq_ | Ne_.

(* [cmp_holds op a b] = the Python comparison [a op b] *)
Definition cmp_holds (c : cmp) (a b : N) : bool :=
  match c with
  | Gt_ => N.ltb b a
  | Ge_ => N.leb b a
  | Lt_ => N.ltb a b
  | Le_ => N.leb a b
  | Eq_ => N.eqb a b
  | Ne_ => negb (N.eqb a b)
  end.

(* shape of the regex in valid_name: "^.*[class].*$" or "[class]" *)
Inductive rx_shape := AnchoredLine | Plain.
